//go:build verif

package main

// Engine twohubs (C05, C09 hub glue, end-to-end samples for C03, C10, C11, C18): two real hubs with their own
// certificates on loopback ports, each with a fake mDNS that the harness feeds with the other hub's service
// record, a recording reader and real SHIP connections between them. A scenario is a random sequence of user
// operations and disturbances followed by a quiet period; the properties are evaluated on what both hubs and
// both applications see at the end. Dial delays are scaled to 0-1 s through the delay-range hook.

import (
	"bufio"
	"crypto/tls"
	"encoding/hex"
	"flag"
	"fmt"
	"math/rand"
	"net"
	"os"
	"runtime"
	"strings"
	"sync"
	"sync/atomic"
	"time"

	"github.com/enbility/ship-go/api"
	"github.com/enbility/ship-go/cert"
	"github.com/enbility/ship-go/hub"
	"github.com/enbility/ship-go/logging"
	"github.com/enbility/ship-go/model"
)

type spineRec struct {
	mu  sync.Mutex
	got []string
}

func (s *spineRec) HandleShipPayloadMessage(b []byte) {
	s.mu.Lock()
	s.got = append(s.got, string(b))
	s.mu.Unlock()
}

// a TCP path that can be cut: what the dialling hub connects to instead of the peer's port
type thProxy struct {
	ln     net.Listener
	target int
	mu     sync.Mutex
	cut    bool
	conns  []net.Conn
	lat    time.Duration // one-way latency added to every chunk
	holed  map[net.Conn]bool // connections that silently lose everything from now on (a partition without FIN / RST)
}

// everything that exists now is cut off silently; connections made later are not affected
func (p *thProxy) blackholeExisting() {
	p.mu.Lock()
	if p.holed == nil {
		p.holed = map[net.Conn]bool{}
	}
	for _, c := range p.conns {
		p.holed[c] = true
	}
	p.mu.Unlock()
}

// the partition ends: what was cut off silently is torn down, both ends learn of it
func (p *thProxy) dropHoled() {
	p.mu.Lock()
	var cs []net.Conn
	for c := range p.holed {
		cs = append(cs, c)
	}
	p.holed = nil
	p.mu.Unlock()
	for _, c := range cs {
		c.Close()
	}
}

func (p *thProxy) isHoled(c net.Conn) bool {
	p.mu.Lock()
	defer p.mu.Unlock()
	return p.holed[c]
}

// copy with latency: a chunk read at time t is written at t+lat (order kept)
func (p *thProxy) pipe(dst, src net.Conn) {
	p.mu.Lock()
	lat := p.lat
	p.mu.Unlock()
	if lat == 0 {
		buf := make([]byte, 32*1024)
		for {
			n, err := src.Read(buf)
			if n > 0 && !p.isHoled(src) && !p.isHoled(dst) {
				if _, werr := dst.Write(buf[:n]); werr != nil {
					return
				}
			}
			if err != nil {
				if p.isHoled(src) || p.isHoled(dst) {
					// the other end must not learn of it yet: its socket stays open until the partition ends
					for p.isHoled(src) || p.isHoled(dst) {
						time.Sleep(20 * time.Millisecond)
					}
				}
				return
			}
		}
	}
	type chunk struct {
		b  []byte
		at time.Time
	}
	ch := make(chan chunk, 1024)
	go func() {
		defer close(ch)
		for {
			buf := make([]byte, 32*1024)
			n, err := src.Read(buf)
			if n > 0 {
				ch <- chunk{buf[:n], time.Now().Add(lat)}
			}
			if err != nil {
				return
			}
		}
	}()
	for c := range ch {
		if d := time.Until(c.at); d > 0 {
			time.Sleep(d)
		}
		if p.isHoled(src) || p.isHoled(dst) {
			continue
		}
		if _, err := dst.Write(c.b); err != nil {
			return
		}
	}
	for p.isHoled(src) || p.isHoled(dst) {
		time.Sleep(20 * time.Millisecond) // the other end must not learn of it yet
	}
}

func newThProxy(target int) *thProxy {
	ln, err := net.Listen("tcp", "127.0.0.1:0")
	if err != nil {
		panic(err)
	}
	p := &thProxy{ln: ln, target: target}
	go func() {
		for {
			c, err := ln.Accept()
			if err != nil {
				return
			}
			p.mu.Lock()
			cut := p.cut
			p.mu.Unlock()
			if cut {
				c.Close()
				continue
			}
			t, err := net.Dial("tcp", fmt.Sprintf("127.0.0.1:%d", p.target))
			if err != nil {
				c.Close()
				continue
			}
			p.mu.Lock()
			p.conns = append(p.conns, c, t)
			p.mu.Unlock()
			go func() { p.pipe(t, c); t.Close(); c.Close() }()
			go func() { p.pipe(c, t); t.Close(); c.Close() }()
		}
	}()
	return p
}

func (p *thProxy) port() int { return p.ln.Addr().(*net.TCPAddr).Port }

func (p *thProxy) setCut(cut bool) {
	p.mu.Lock()
	p.cut = cut
	cs := p.conns
	if cut {
		p.conns = nil
	}
	p.mu.Unlock()
	if cut {
		for _, c := range cs {
			c.Close()
		}
	}
}

type thNode struct {
	via     *thProxy // how the other hub reaches this one
	name    string
	cert    tls.Certificate
	ski     string
	shipID  string
	port    int
	hub     *hub.Hub
	mdns    *fakeMdns
	reader  *recReader
	mu      sync.Mutex
	writers []api.ShipConnectionDataWriterInterface // one per SetupRemoteDevice, in order
	spines  []*spineRec
	running bool
}

func (n *thNode) start() {
	n.mdns = newFakeMdns()
	n.reader = &recReader{}
	n.reader.onSetup = func(ski string, w api.ShipConnectionDataWriterInterface) api.ShipConnectionDataReaderInterface {
		s := &spineRec{}
		n.mu.Lock()
		n.writers = append(n.writers, w)
		n.spines = append(n.spines, s)
		n.mu.Unlock()
		return s
	}
	local := api.NewServiceDetails(n.ski)
	local.SetShipID(n.shipID)
	n.hub = hub.NewHub(n.reader, n.mdns, n.port, n.cert, local)
	n.hub.Start()
	n.running = true
}

func (n *thNode) entry() *api.MdnsEntry {
	return &api.MdnsEntry{Name: n.name, Ski: n.ski, Identifier: n.shipID, Path: "/ship/", Register: false,
		Host: "localhost", Port: n.via.port(), Addresses: []net.IP{net.ParseIP("127.0.0.1")}}
}

func newThNode(name string, seed int64) *thNode {
	c, err := cert.CreateCertificate("unit", "verif", "DE", fmt.Sprintf("%s-%d", name, seed))
	if err != nil {
		panic(err)
	}
	leaf, err := parseLeaf(c)
	if err != nil {
		panic(err)
	}
	ski, err := cert.SkiFromCertificate(leaf)
	if err != nil {
		panic(err)
	}
	port := freePort()
	return &thNode{name: name, cert: c, ski: ski, shipID: "ShipID-" + name, port: port, via: newThProxy(port)}
}

type thFacts struct {
	trusted    bool
	connState  int // -1 none
	lastLife   string
	setups     int
	discs      int
	lastPair   string
	detail     string
	shipIDSeen string
	connErr    string
}

func (n *thNode) facts(other *thNode) thFacts {
	f := thFacts{connState: -1, lastPair: "-", lastLife: "-"}
	svc := n.hub.ServiceForSKI(other.ski)
	f.trusted = svc.Trusted()
	if c := n.hub.VerifConnectionFor(other.ski); c != nil {
		st, err := c.ShipHandshakeState()
		f.connState = int(st)
		if err != nil {
			f.connErr = err.Error()
		}
	}
	d := n.hub.PairingDetailForSki(other.ski)
	f.detail = fmt.Sprint(uint(d.State()))
	for _, e := range n.reader.snapshot() {
		if e.ski != other.ski {
			continue
		}
		switch e.kind {
		case "setup":
			f.setups++
			f.lastLife = "setup"
		case "disconnected":
			f.discs++
			f.lastLife = "disconnected"
		case "pairing":
			f.lastPair = e.arg
		case "shipid":
			f.shipIDSeen = e.arg
		}
	}
	return f
}

func (f thFacts) String() string {
	return fmt.Sprintf("t=%s,c=%d,life=%s,setups=%d,discs=%d,pair=%s,detail=%s,id=%s", b01(f.trusted), f.connState, f.lastLife, f.setups, f.discs, f.lastPair, f.detail, hex.EncodeToString([]byte(f.shipIDSeen))) +
		map[bool]string{true: ",err=" + strings.ReplaceAll(f.connErr, " ", "_"), false: ""}[f.connErr != ""]
}

// handshake states at which a targeted cut is placed (waiting states of both roles)
var cutStatesClient = []int{2, 8, 22, 27, 36, 38}
var cutStatesServer = []int{4, 8, 11, 20, 21, 27, 36, 38}

type thResult struct {
	ops  []string
	line string
	bad  []string // "<property> <what>"
}

func runTwoHubs(id int, seed int64, nops int) *thResult {
	rnd := rand.New(rand.NewSource(seed))
	res := &thResult{}
	a, b := newThNode("A", seed), newThNode("B", seed)
	a.start()
	b.start()
	defer func() {
		a.via.ln.Close()
		b.via.ln.Close()
		a.via.setCut(true)
		b.via.setCut(true)
		if a.running {
			a.hub.Shutdown()
		}
		if b.running {
			b.hub.Shutdown()
		}
	}()
	// a third of the scenarios run over a path with latency and use the targeted disturbances (cut at a chosen
	// handshake state, simultaneous registration storms)
	targeted := rnd.Intn(3) == 0
	if targeted {
		lat := time.Duration(5+rnd.Intn(30)) * time.Millisecond
		for _, x := range []*thNode{a, b} {
			x.via.mu.Lock()
			x.via.lat = lat
			x.via.mu.Unlock()
		}
	}
	nodes := map[string]*thNode{"A": a, "B": b}
	other := func(n *thNode) *thNode {
		if n == a {
			return b
		}
		return a
	}
	// configuration facts tracked by the harness (user intent)
	reg := map[string]bool{}      // X registered the other
	auto := map[string]bool{}     // auto accept
	vis := map[string]bool{}      // X sees the other via mDNS
	pinned := map[string]string{} // stored SHIP id X holds for the other ("" none)
	cancelled := map[string]bool{}
	cutNow := map[string]bool{}
	op := func(s string) {
		res.ops = append(res.ops, s)
		if thDebug != nil {
			thDebug.out("OP", s, "A="+a.ski[:6], "B="+b.ski[:6])
		}
	}
	// a stored SHIP id (from an earlier pairing) is set before anything connects
	for _, n := range []*thNode{a, b} {
		switch rnd.Intn(5) {
		case 0:
			pinned[n.name] = other(n).shipID
		case 1:
			pinned[n.name] = "SomeOtherShipID"
		}
		if pinned[n.name] != "" {
			n.hub.ServiceForSKI(other(n).ski).SetShipID(pinned[n.name])
			op("pin" + n.name + "=" + map[bool]string{true: "right", false: "wrong"}[pinned[n.name] == other(n).shipID])
		}
	}
	for i := 0; i < nops; i++ {
		n := []*thNode{a, b}[rnd.Intn(2)]
		o := other(n)
		if !n.running {
			continue
		}
		k := rnd.Intn(100)
		if targeted && rnd.Intn(3) == 0 {
			k = 93 + rnd.Intn(5)
			switch r := rnd.Intn(12); {
			case r < 3:
				k = 200
			case r < 4:
				k = 201
			case r < 6:
				k = 202
			case r < 8:
				k = 203
			}
		}
		switch {
		case k < 32:
			n.hub.RegisterRemoteSKI(o.ski)
			reg[n.name] = true
			cancelled[n.name] = false
			op("reg" + n.name)
		case k < 58:
			n.mdns.publish(o.entry())
			vis[n.name] = true
			op("vis" + n.name)
		case k < 61:
			n.mdns.withdraw(o.ski)
			vis[n.name] = false
			op("invis" + n.name)
		case k < 66:
			n.hub.UnregisterRemoteSKI(o.ski)
			reg[n.name] = false
			op("unreg" + n.name)
		case k < 69:
			n.hub.CancelPairingWithSKI(o.ski)
			reg[n.name] = false
			cancelled[n.name] = true
			op("cancel" + n.name)
		case k < 77:
			n.hub.DisconnectSKI(o.ski, "bye")
			if rnd.Intn(3) == 0 && o.running {
				// both applications disconnect at nearly the same time: the peer's close arrives inside the
				// grace period of the own graceful close
				time.Sleep(time.Duration(rnd.Intn(400)) * time.Millisecond)
				o.hub.DisconnectSKI(n.ski, "bye too")
				op("discBoth" + n.name)
				break
			}
			op("disc" + n.name)
		case k < 82:
			on := rnd.Intn(2) == 0
			n.hub.SetAutoAccept(on)
			auto[n.name] = on
			op("auto" + n.name + "=" + b01(on))
		case k < 86:
			// restart: the application shuts the hub down and creates a new one with what it persisted
			n.hub.Shutdown()
			time.Sleep(time.Duration(50+rnd.Intn(200)) * time.Millisecond)
			wasReg, wasAuto, wasVis := reg[n.name], auto[n.name], vis[n.name]
			n.mu.Lock()
			n.writers, n.spines = nil, nil
			n.mu.Unlock()
			n.start()
			if pinned[n.name] != "" {
				n.hub.ServiceForSKI(o.ski).SetShipID(pinned[n.name])
			}
			if wasAuto {
				n.hub.SetAutoAccept(true)
			}
			if wasReg {
				n.hub.RegisterRemoteSKI(o.ski)
			}
			if wasVis {
				n.mdns.publish(o.entry())
			}
			op("restart" + n.name)
		case k < 90:
			// the network path towards this hub fails: existing connections die, new dials are refused
			n.via.setCut(true)
			cutNow[n.name] = true
			op("cut" + n.name)
		case k < 93:
			n.via.setCut(false)
			cutNow[n.name] = false
			op("heal" + n.name)
		case k == 200:
			// the user removes the service (or cancels the pairing) while the hub is establishing the connection to it
			if rnd.Intn(3) != 0 && o.running {
				o.hub.RegisterRemoteSKI(n.ski)
				reg[o.name] = true
				cancelled[o.name] = false
			}
			n.hub.RegisterRemoteSKI(o.ski)
			n.mdns.publish(o.entry())
			vis[n.name] = true
			a.via.mu.Lock()
			lat := a.via.lat
			a.via.mu.Unlock()
			time.Sleep(time.Duration(1+rnd.Intn(5)) * lat)
			what := "unreg"
			if rnd.Intn(2) == 0 {
				n.hub.UnregisterRemoteSKI(o.ski)
			} else {
				n.hub.CancelPairingWithSKI(o.ski)
				what = "cancel"
				cancelled[n.name] = true
			}
			reg[n.name] = false
			op("reg" + n.name + ",vis" + n.name + "," + what + n.name + "DuringDial")
			// what was under way has to die: no connection of this SKI may get anywhere, the SKI stays untrusted
			time.Sleep(time.Duration(1200+rnd.Intn(600)) * time.Millisecond)
			if !auto[n.name] {
				f := n.facts(o)
				if f.trusted || f.connState == int(model.SmeStateComplete) || f.connState == int(model.SmeHelloStateOk) {
					res.bad = append(res.bad, fmt.Sprintf("C10 the user of %s removed the peer (%s) while %s was establishing the connection to it: about 1.5 s later %s trusts the peer = %v and holds a connection in handshake state %d", n.name, what, n.name, n.name, f.trusted, f.connState))
				}
			}
		case k == 202:
			// a silent partition: the existing connection between the hubs loses everything without either socket being
			// closed; one hub notices (its application disconnects) and connects again while the other still holds the
			// old connection
			// (the hub with the higher SKI is the one that notices: its new connection is the one both keep; the other
			// way round the pair has to wait for the websocket ping to time out, a minute, before it can recover)
			if n.ski < o.ski {
				n, o = o, n
			}
			if !n.running || !o.running || pinned[n.name] == "SomeOtherShipID" || pinned[o.name] == "SomeOtherShipID" {
				continue
			}
			// first a completed connection between the two
			for _, x := range []*thNode{n, o} {
				x.hub.RegisterRemoteSKI(other(x).ski)
				x.mdns.publish(other(x).entry())
				reg[x.name], vis[x.name], cancelled[x.name] = true, true, false
			}
			up := false
			for i := 0; i < 60 && !up; i++ {
				time.Sleep(50 * time.Millisecond)
				up = n.facts(o).connState == int(model.SmeStateComplete) && o.facts(n).connState == int(model.SmeStateComplete)
			}
			if !up {
				op("regA,regB,visA,visB")
				continue
			}
			a.via.blackholeExisting()
			b.via.blackholeExisting()
			n.hub.RegisterRemoteSKI(o.ski)
			reg[n.name], cancelled[n.name] = true, false
			n.hub.DisconnectSKI(o.ski, "no heartbeat")
			time.Sleep(time.Duration(600+rnd.Intn(300)) * time.Millisecond) // the graceful close gives up after 500 ms
			n.mdns.publish(o.entry())
			vis[n.name] = true
			op("partition,reg" + n.name + ",disc" + n.name + ",vis" + n.name)
			time.Sleep(time.Duration(1500+rnd.Intn(800)) * time.Millisecond)
			// the peer replaced its old connection by the new one: its application has to end on "set up"
			if f := o.facts(n); f.connState == int(model.SmeStateComplete) && f.lastLife != "setup" {
				time.Sleep(700 * time.Millisecond)
				if f = o.facts(n); f.connState == int(model.SmeStateComplete) && f.lastLife != "setup" {
					res.bad = append(res.bad, fmt.Sprintf("C11 hub %s holds a completed connection (the peer connected again while the old connection was still registered), but the application's last notification is %q (set up %d, disconnected %d)", o.name, f.lastLife, f.setups, f.discs))
				}
			}
			a.via.dropHoled()
			b.via.dropHoled()
		case k == 203:
			// both applications disconnect a completed connection at nearly the same time: each side's close arrives
			// inside the grace period of the other's graceful close. Both stay paired and visible, so they have to find
			// each other again
			if !n.running || !o.running || pinned[n.name] == "SomeOtherShipID" || pinned[o.name] == "SomeOtherShipID" {
				continue
			}
			for _, x := range []*thNode{n, o} {
				x.hub.RegisterRemoteSKI(other(x).ski)
				x.mdns.publish(other(x).entry())
				reg[x.name], vis[x.name], cancelled[x.name] = true, true, false
			}
			up203 := false
			for i := 0; i < 60 && !up203; i++ {
				time.Sleep(50 * time.Millisecond)
				up203 = n.facts(o).connState == int(model.SmeStateComplete) && o.facts(n).connState == int(model.SmeStateComplete)
			}
			if !up203 {
				op("regA,regB,visA,visB")
				continue
			}
			setupsN, setupsO := n.facts(o).setups, o.facts(n).setups
			n.hub.DisconnectSKI(o.ski, "bye")
			time.Sleep(time.Duration(rnd.Intn(450)) * time.Millisecond)
			o.hub.DisconnectSKI(n.ski, "bye too")
			op("regA,regB,visA,visB,disc" + n.name + "+" + o.name)
			time.Sleep(time.Duration(1200+rnd.Intn(500)) * time.Millisecond)
			// both ends are reported by now: neither hub may still hold the old connection
			for _, x := range []*thNode{n, o} {
				x.mdns.publish(other(x).entry())
			}
			back := false
			for i := 0; i < 120 && !back; i++ {
				time.Sleep(50 * time.Millisecond)
				fn, fo := n.facts(o), o.facts(n)
				// a connection that was set up after the disconnects (what the application was told last is C11's
				// subject and judged at the end of the scenario, where the facts have stopped changing)
				back = fn.connState == int(model.SmeStateComplete) && fo.connState == int(model.SmeStateComplete) && fn.setups > setupsN && fo.setups > setupsO
			}
			if !back {
				fn, fo := n.facts(o), o.facts(n)
				res.bad = append(res.bad, fmt.Sprintf("C05 both applications disconnected the completed connection within 450 ms of each other; both hubs stay paired and see each other, but 7 s later there is no new completed connection: %s holds state %d (set up %d, disconnected %d, last %q), %s holds state %d (set up %d, disconnected %d, last %q)",
					n.name, fn.connState, fn.setups, fn.discs, fn.lastLife, o.name, fo.connState, fo.setups, fo.discs, fo.lastLife))
			}
		case k == 201:
			// the hub is shut down while it is establishing a connection; afterwards the application starts a new one
			if rnd.Intn(3) != 0 && o.running {
				o.hub.RegisterRemoteSKI(n.ski)
				reg[o.name] = true
				cancelled[o.name] = false
			}
			n.hub.RegisterRemoteSKI(o.ski)
			n.mdns.publish(o.entry())
			a.via.mu.Lock()
			lat2 := a.via.lat
			a.via.mu.Unlock()
			time.Sleep(time.Duration(1+rnd.Intn(5)) * lat2)
			n.hub.Shutdown()
			time.Sleep(time.Duration(1200+rnd.Intn(600)) * time.Millisecond)
			if f := n.facts(o); f.connState != -1 {
				res.bad = append(res.bad, fmt.Sprintf("C10 hub %s was shut down while it was establishing a connection: about 1.5 s after Shutdown returned it holds a registered connection in handshake state %d (set up %d, disconnected %d)", n.name, f.connState, f.setups, f.discs))
			}
			n.mu.Lock()
			n.writers, n.spines = nil, nil
			n.mu.Unlock()
			n.start()
			if pinned[n.name] != "" {
				n.hub.ServiceForSKI(o.ski).SetShipID(pinned[n.name])
			}
			if auto[n.name] {
				n.hub.SetAutoAccept(true)
			}
			n.hub.RegisterRemoteSKI(o.ski)
			reg[n.name], vis[n.name], cancelled[n.name] = true, false, false
			op("reg" + n.name + ",vis" + n.name + ",shutdown" + n.name + "DuringDial,restart" + n.name)
		case k < 96 && targeted:
			// the path between the hubs fails at the moment this hub's connection is in a chosen handshake state
			n.hub.RegisterRemoteSKI(o.ski)
			reg[n.name] = true
			cancelled[n.name] = false
			if rnd.Intn(2) == 0 {
				o.hub.RegisterRemoteSKI(n.ski)
				reg[o.name] = true
				cancelled[o.name] = false
			}
			dialler := []*thNode{n, o}[rnd.Intn(2)]
			if !reg[dialler.name] {
				dialler = n
			}
			states := cutStatesServer
			if dialler == n {
				states = cutStatesClient
			}
			want := states[rnd.Intn(len(states))]
			dialler.mdns.publish(other(dialler).entry())
			vis[dialler.name] = true
			hit := -1
			deadline := time.Now().Add(1500 * time.Millisecond)
			for time.Now().Before(deadline) {
				if c := n.hub.VerifConnectionFor(o.ski); c != nil {
					if st, _ := c.ShipHandshakeState(); int(st) == want {
						hit = int(st)
						break
					}
				}
				time.Sleep(100 * time.Microsecond)
			}
			a.via.setCut(true)
			b.via.setCut(true)
			time.Sleep(time.Duration(100+rnd.Intn(500)) * time.Millisecond)
			a.via.setCut(false)
			b.via.setCut(false)
			op(fmt.Sprintf("cutAt%s(%d,hit=%d,dial=%s)", n.name, want, hit, dialler.name))
		case k < 98 && targeted:
			// several rounds of both hubs registering and seeing each other at the same instant: double connections
			rounds := 2 + rnd.Intn(4)
			for r := 0; r < rounds; r++ {
				var wg sync.WaitGroup
				var goFlag atomic.Bool
				// one side may be ahead by up to a few one-way latencies: which connection a hub sees first varies
				late := []*thNode{a, b}[rnd.Intn(2)]
				lateBy := time.Duration(rnd.Int63n(int64(4*a.via.lat + 2*time.Millisecond)))
				for _, x := range []*thNode{a, b} {
					if !x.running {
						continue
					}
					wg.Add(1)
					go func(x *thNode) {
						defer wg.Done()
						for !goFlag.Load() {
							runtime.Gosched()
						}
						if x == late {
							time.Sleep(lateBy)
						}
						x.hub.RegisterRemoteSKI(other(x).ski)
						x.mdns.publish(other(x).entry())
					}(x)
				}
				time.Sleep(time.Millisecond)
				goFlag.Store(true)
				wg.Wait()
				time.Sleep(time.Duration(150+rnd.Intn(400)) * time.Millisecond)
				if r < rounds-1 {
					x := []*thNode{a, b}[rnd.Intn(2)]
					if x.running {
						x.hub.DisconnectSKI(other(x).ski, "again")
					}
					time.Sleep(time.Duration(rnd.Intn(30)) * time.Millisecond)
				}
			}
			for _, x := range []*thNode{a, b} {
				if x.running {
					reg[x.name], vis[x.name], cancelled[x.name] = true, true, false
				}
			}
			op(fmt.Sprintf("storm%d", rounds))
		default:
			d := time.Duration(rnd.Intn(900)) * time.Millisecond
			time.Sleep(d)
			op(fmt.Sprintf("wait%d", d.Milliseconds()))
		}
		if rnd.Intn(3) == 0 {
			time.Sleep(time.Duration(rnd.Intn(150)) * time.Millisecond)
		}
	}
	// half of the scenarios end with both hubs (re-)registering and seeing each other, in random order:
	// whatever happened before, the pair has to converge
	if rnd.Intn(2) == 0 {
		outage := rnd.Intn(3) == 0
		if outage {
			// the network between the hubs is down while they register and see each other: every dial fails
			// until it comes back, after which nothing else prods the hubs
			for _, n := range []*thNode{a, b} {
				n.via.setCut(true)
				cutNow[n.name] = true
				op("cut" + n.name)
			}
		}
		final := []string{"regA", "regB", "visA", "visB"}
		rnd.Shuffle(len(final), func(i, j int) { final[i], final[j] = final[j], final[i] })
		for _, f := range final {
			n := nodes[f[3:]]
			o := other(n)
			if !n.running {
				continue
			}
			if f[:3] == "reg" {
				n.hub.RegisterRemoteSKI(o.ski)
				reg[n.name] = true
			} else {
				n.mdns.publish(o.entry())
				vis[n.name] = true
			}
			op(f)
			if rnd.Intn(2) == 0 {
				time.Sleep(time.Duration(rnd.Intn(120)) * time.Millisecond)
			}
		}
	}
	if cutNow["A"] || cutNow["B"] {
		d := time.Duration(800+rnd.Intn(1500)) * time.Millisecond
		time.Sleep(d)
		op(fmt.Sprintf("wait%d", d.Milliseconds()))
	}
	// the network is whole again before the quiet period
	for _, n := range []*thNode{a, b} {
		if cutNow[n.name] {
			n.via.setCut(false)
			cutNow[n.name] = false
			op("heal" + n.name)
		}
	}
	// quiet period: wait until both hubs show the same facts for 2 s (at most 14 s)
	snap := func() string { return a.facts(b).String() + " || " + b.facts(a).String() }
	last, since := snap(), time.Now()
	deadline := time.Now().Add(14 * time.Second)
	for time.Now().Before(deadline) && time.Since(since) < 2500*time.Millisecond {
		time.Sleep(100 * time.Millisecond)
		if s := snap(); s != last {
			last, since = s, time.Now()
		}
	}
	// with a wrong stored SHIP id (or similar) the hubs retry for ever and never settle: what is said about "a stable
	// point" / "after things settle" (C11 notifications, C18) is judged only when the facts did stop changing
	settled := time.Since(since) >= 2500*time.Millisecond
	fa, fb := a.facts(b), b.facts(a)
	bad := func(p, f string, x ...any) {
		if !settled && (p == "C18" || p == "C11" || p == "C03") {
			return
		}
		res.bad = append(res.bad, p+" "+fmt.Sprintf(f, x...))
	}
	complete := func(f thFacts) bool { return f.connState == int(model.SmeStateComplete) }
	// --- payloads over what both consider their connection
	payloadOK := false
	if complete(fa) && complete(fb) {
		send := func(n, o *thNode, text string) bool {
			n.mu.Lock()
			var w api.ShipConnectionDataWriterInterface
			if len(n.writers) > 0 {
				w = n.writers[len(n.writers)-1]
			}
			n.mu.Unlock()
			if w == nil {
				return false
			}
			w.WriteShipMessageWithPayload([]byte(text))
			for i := 0; i < 150; i++ {
				o.mu.Lock()
				var sp *spineRec
				if len(o.spines) > 0 {
					sp = o.spines[len(o.spines)-1]
				}
				o.mu.Unlock()
				if sp != nil {
					sp.mu.Lock()
					for _, g := range sp.got {
						if g == text {
							sp.mu.Unlock()
							return true
						}
					}
					sp.mu.Unlock()
				}
				time.Sleep(10 * time.Millisecond)
			}
			return false
		}
		ab := send(a, b, fmt.Sprintf(`{"datagram":{"from":"A","n":%d}}`, id))
		ba := send(b, a, fmt.Sprintf(`{"datagram":{"from":"B","n":%d}}`, id))
		payloadOK = ab && ba
		if !payloadOK {
			bad("C05", "both hubs hold a completed connection but a SPINE payload does not get through (A->B %v, B->A %v): they do not hold the same connection", ab, ba)
		}
	}
	// --- expectations from the final configuration
	trusts := func(n string) bool { return reg[n] || auto[n] }
	pinOK := func(n *thNode) bool { return pinned[n.name] == "" || pinned[n.name] == other(n).shipID }
	someoneDials := (reg["A"] && vis["A"]) || (reg["B"] && vis["B"])
	bothUp := a.running && b.running
	expectUp := bothUp && reg["A"] && reg["B"] && vis["A"] && vis["B"] && pinOK(a) && pinOK(b)
	if expectUp && !(complete(fa) && complete(fb) && payloadOK) {
		bad("C05", "both hubs registered and see each other, the quiet period is over: A has connection state %d, B has %d, payloads ok=%v", fa.connState, fb.connState, payloadOK)
	}
	// C09 at hub level: a hub that holds another SHIP id for this SKI never completes with it
	for _, p := range []struct {
		n *thNode
		f thFacts
	}{{a, fa}, {b, fb}} {
		if !pinOK(p.n) && (complete(p.f) || p.f.lastLife == "setup" && p.f.setups > 0 && p.f.discs < p.f.setups) {
			bad("C09", "hub %s holds SHIP id %q for the peer, the peer presents %q, yet the connection completed / the device was set up", p.n.name, pinned[p.n.name], other(p.n).shipID)
		}
		if p.f.shipIDSeen != "" && p.f.shipIDSeen != other(p.n).shipID {
			bad("C09", "hub %s reported SHIP id %q, the peer's is %q", p.n.name, p.f.shipIDSeen, other(p.n).shipID)
		}
	}
	// C03 end to end: never one side completed for good while the other has nothing
	if bothUp && complete(fa) != complete(fb) {
		bad("C03", "after the quiet period A has connection state %d and B has %d: one side completed, the other did not", fa.connState, fb.connState)
	}
	// C10: untrusted and not auto-accepting on one side: nothing completes; unregistered / cancelled: no connection stays
	for _, p := range []struct {
		n *thNode
		f thFacts
	}{{a, fa}, {b, fb}} {
		if !trusts(p.n.name) && !trusts(other(p.n).name) && complete(p.f) {
			bad("C10", "neither hub trusts the other, yet %s holds a completed connection", p.n.name)
		}
		if !reg[p.n.name] && !auto[p.n.name] && complete(p.f) {
			bad("C10", "the user of %s has not registered the peer (or has unregistered / cancelled it since), auto-accept is off, yet %s holds a completed connection (trusted=%v)", p.n.name, p.n.name, p.f.trusted)
		}
	}
	_ = someoneDials
	_ = cancelled
	// C11: the application's last life-cycle notification matches the registry
	for _, p := range []struct {
		n *thNode
		f thFacts
	}{{a, fa}, {b, fb}} {
		if !p.n.running {
			continue
		}
		if complete(p.f) != (p.f.lastLife == "setup") {
			bad("C11", "hub %s: completed connection registered = %v, but the application's last notification is %q (setups %d, disconnects %d)", p.n.name, complete(p.f), p.f.lastLife, p.f.setups, p.f.discs)
		}
		// C18
		if p.f.lastPair != "-" && p.f.lastPair != p.f.detail {
			bad("C18", "hub %s: last pairing notification shows %s, PairingDetailForSki reports %s", p.n.name, p.f.lastPair, p.f.detail)
		}
	}
	cfg := fmt.Sprintf("regA=%s regB=%s autoA=%s autoB=%s visA=%s visB=%s pinA=%s pinB=%s higher=%s", b01(reg["A"]), b01(reg["B"]), b01(auto["A"]), b01(auto["B"]),
		b01(vis["A"]), b01(vis["B"]), map[bool]string{true: "ok", false: "wrong"}[pinOK(a)], map[bool]string{true: "ok", false: "wrong"}[pinOK(b)], map[bool]string{true: "A", false: "B"}[a.ski > b.ski])
	res.line = fmt.Sprintf("ops=%s | %s | A:%s | B:%s | expectUp=%s payload=%s settled=%s", strings.Join(res.ops, ","), cfg, fa, fb, b01(expectUp), b01(payloadOK), b01(settled))
	_ = nodes
	return res
}

// debug logger: everything the library logs, with a timestamp (only with -debug, single scenario)
type thLogger struct {
	mu sync.Mutex
	t0 time.Time
}

func (l *thLogger) out(lvl string, args ...interface{}) {
	l.mu.Lock()
	fmt.Fprintf(os.Stderr, "%7.3f %s %s\n", time.Since(l.t0).Seconds(), lvl, strings.TrimSpace(fmt.Sprintln(args...)))
	l.mu.Unlock()
}
func (l *thLogger) Trace(args ...interface{})                 { l.out("T", args...) }
func (l *thLogger) Tracef(f string, args ...interface{})      { l.out("T", fmt.Sprintf(f, args...)) }
func (l *thLogger) Debug(args ...interface{})                 { l.out("D", args...) }
func (l *thLogger) Debugf(f string, args ...interface{})      { l.out("D", fmt.Sprintf(f, args...)) }
func (l *thLogger) Info(args ...interface{})                  { l.out("I", args...) }
func (l *thLogger) Infof(f string, args ...interface{})       { l.out("I", fmt.Sprintf(f, args...)) }
func (l *thLogger) Error(args ...interface{})                 { l.out("E", args...) }
func (l *thLogger) Errorf(f string, args ...interface{})      { l.out("E", fmt.Sprintf(f, args...)) }

var thDebug *thLogger

func twohubsMain(args []string) int {
	fs := flag.NewFlagSet("twohubs", flag.ExitOnError)
	seed := fs.Int64("seed", 1, "PRNG seed")
	n := fs.Int("n", 40, "scenarios")
	nops := fs.Int("ops", 8, "operations per scenario")
	workers := fs.Int("workers", 20, "parallel scenarios")
	only := fs.Int("only", -1, "run only this scenario")
	out := fs.String("out", "twohubs.txt", "result lines")
	debug := fs.Bool("debug", false, "print the library's log and the operations with timestamps to stderr")
	_ = fs.Parse(args)
	if *debug {
		thDebug = &thLogger{t0: time.Now()}
		logging.SetLogging(thDebug)
	}
	hub.VerifSetDelayRanges([][2]int{{0, 1}, {0, 1}, {0, 1}})
	res := make([]*thResult, *n)
	var wg sync.WaitGroup
	sem := make(chan struct{}, *workers)
	for i := 0; i < *n; i++ {
		if *only >= 0 && i != *only {
			continue
		}
		wg.Add(1)
		sem <- struct{}{}
		go func(i int) {
			defer wg.Done()
			defer func() { <-sem }()
			defer func() {
				if x := recover(); x != nil {
					res[i] = &thResult{line: "PANIC", bad: []string{fmt.Sprintf("C08 panic in scenario: %v", x)}}
				}
			}()
			res[i] = runTwoHubs(i, *seed*52361+int64(i), *nops)
		}(i)
	}
	wg.Wait()
	f, _ := os.Create(*out)
	w := bufio.NewWriter(f)
	for i, r := range res {
		if r == nil {
			continue
		}
		fmt.Fprintf(w, "S %d %s\n", i, r.line)
		for _, b := range r.bad {
			fmt.Fprintf(w, "BAD %d %s\n", i, b)
		}
	}
	w.Flush()
	f.Close()
	return 0
}
