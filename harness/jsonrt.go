//go:build verif

package main

// Engine jsonrt (C07): documents generated as trees; atoms are the text Go's encoder emits. For each
// document the real JsonIntoEEBUSJson and JsonFromEEBUSJson are run on its compact serialisation and the
// results are printed as hex next to the tree in prefix form for the Lean driver.

import (
	"bufio"
	"encoding/hex"
	"encoding/json"
	"flag"
	"fmt"
	"math/rand"
	"os"
	"strings"

	"github.com/enbility/ship-go/ship"
)

type jnode struct {
	kind  byte // 'T' atom, 'A' array, 'O' object
	atom  string
	elems []*jnode
	keys  []string
}

type jgen struct {
	rnd   *rand.Rand
	nasty int // 0: clean documents, 1: empty arrays allowed, 2: bracket-rich strings too
	nkey  int
}

var cleanStrings = []string{"", "a", "ee1.0", "value with spaces", "q\"uote", "back\\slash", "comma, colon: semi;", "ümlaut é 日本", "line\nbreak\ttab", "<html>&amp;", " sep", "null", "true", "12"}
var nastyStrings = []string{"[{", "}]", "},{", "[]", "a[b]c", "{x}", "}", "]", "[ ]", "x},{y", "[{\"a\":1}]", "}]}]"}
var numberLits = []string{"0", "-1", "12.50", "1e400", "123456789012345678901234567890", "0.000000000000000000001", "-0", "1E+2", "3.14159265358979323846264338327950288"}

func (g *jgen) str() string {
	if g.nasty >= 2 && g.rnd.Intn(3) == 0 {
		return nastyStrings[g.rnd.Intn(len(nastyStrings))]
	}
	return cleanStrings[g.rnd.Intn(len(cleanStrings))]
}

func goStr(s string) string {
	b, _ := json.Marshal(s)
	return string(b)
}

func (g *jgen) key() string {
	g.nkey++
	base := []string{"data", "header", "payload", "datagram", "cmd", "k", "ä", "a b"}[g.rnd.Intn(8)]
	if g.nasty >= 2 && g.rnd.Intn(6) == 0 {
		base = nastyStrings[g.rnd.Intn(len(nastyStrings))]
	}
	return goStr(fmt.Sprintf("%s%d", base, g.nkey)) // distinct keys: duplicate keys are outside the domain
}

func (g *jgen) value(depth int) *jnode {
	k := g.rnd.Intn(10)
	if depth <= 0 && k >= 5 {
		k = g.rnd.Intn(5)
	}
	switch {
	case k < 2:
		return &jnode{kind: 'T', atom: goStr(g.str())}
	case k < 4:
		return &jnode{kind: 'T', atom: numberLits[g.rnd.Intn(len(numberLits))]}
	case k < 5:
		return &jnode{kind: 'T', atom: []string{"true", "false", "null"}[g.rnd.Intn(3)]}
	case k < 7:
		n := g.rnd.Intn(4)
		if g.nasty == 0 && n == 0 {
			n = 1
		}
		a := &jnode{kind: 'A'}
		for i := 0; i < n; i++ {
			a.elems = append(a.elems, g.value(depth-1))
		}
		return a
	default:
		return g.object(depth-1, 0)
	}
}

func (g *jgen) object(depth, min int) *jnode {
	n := min + g.rnd.Intn(4)
	o := &jnode{kind: 'O'}
	for i := 0; i < n; i++ {
		o.keys = append(o.keys, g.key())
		o.elems = append(o.elems, g.value(depth))
	}
	return o
}

func (n *jnode) text(sb *strings.Builder) {
	switch n.kind {
	case 'T':
		sb.WriteString(n.atom)
	case 'A':
		sb.WriteByte('[')
		for i, e := range n.elems {
			if i > 0 {
				sb.WriteByte(',')
			}
			e.text(sb)
		}
		sb.WriteByte(']')
	case 'O':
		sb.WriteByte('{')
		for i, e := range n.elems {
			if i > 0 {
				sb.WriteByte(',')
			}
			sb.WriteString(n.keys[i])
			sb.WriteByte(':')
			e.text(sb)
		}
		sb.WriteByte('}')
	}
}

func (n *jnode) prefix(sb *strings.Builder) {
	switch n.kind {
	case 'T':
		sb.WriteString("T" + hex.EncodeToString([]byte(n.atom)) + " ")
	case 'A':
		sb.WriteString("A ")
		for _, e := range n.elems {
			e.prefix(sb)
		}
		sb.WriteString(". ")
	case 'O':
		sb.WriteString("O ")
		for i, e := range n.elems {
			sb.WriteString("K" + hex.EncodeToString([]byte(n.keys[i])) + " ")
			e.prefix(sb)
		}
		sb.WriteString(". ")
	}
}

func (n *jnode) stats() (depth, nodes int) {
	nodes = 1
	for _, e := range n.elems {
		d, c := e.stats()
		if d+1 > depth {
			depth = d + 1
		}
		nodes += c
	}
	return
}

// corpus: the witnesses of the known findings and past failures, run first
func jsonCorpus() []*jnode {
	a := func(s string) *jnode { return &jnode{kind: 'T', atom: s} }
	obj := func(kv ...any) *jnode {
		o := &jnode{kind: 'O'}
		for i := 0; i < len(kv); i += 2 {
			o.keys = append(o.keys, goStr(kv[i].(string)))
			o.elems = append(o.elems, kv[i+1].(*jnode))
		}
		return o
	}
	arr := func(e ...*jnode) *jnode { return &jnode{kind: 'A', elems: e} }
	return []*jnode{
		obj("a", arr()),             // C07/empty-array
		obj("a", a(goStr("[{"))),    // C07/bracket-in-string
		obj(),                       // C07/empty-top-object
		obj("a", a(goStr("x},{y"))), // C07/bracket-in-string (separator pattern)
		obj("data", obj("header", obj("protocolId", a(goStr("ee1.0"))), "payload", obj("datagram", arr(obj("n", a("1")), obj())))),
		obj("a", arr(arr(obj("b", a("1"))), arr(a("2"), arr(a("3"))))),
	}
}

func hexOrDash(b []byte) string {
	if len(b) == 0 {
		return "-"
	}
	return hex.EncodeToString(b)
}

func jsonrtMain(args []string) int {
	fs := flag.NewFlagSet("jsonrt", flag.ExitOnError)
	seed := fs.Int64("seed", 1, "PRNG seed")
	n := fs.Int("n", 20000, "number of documents")
	outIn := fs.String("in", "json_in.txt", "documents in prefix form (model input)")
	outImpl := fs.String("impl", "json_impl.txt", "implementation results")
	_ = fs.Parse(args)
	fi, _ := os.Create(*outIn)
	fo, _ := os.Create(*outImpl)
	bi, bo := bufio.NewWriter(fi), bufio.NewWriter(fo)
	emit := func(doc *jnode) {
		var sb, pb strings.Builder
		doc.text(&sb)
		doc.prefix(&pb)
		in := sb.String()
		wire, err := ship.JsonIntoEEBUSJson([]byte(in))
		d, c := doc.stats()
		if err != nil {
			fmt.Fprintln(bi, strings.TrimSpace(pb.String()))
			fmt.Fprintf(bo, "error %s depth=%d nodes=%d\n", hex.EncodeToString([]byte(err.Error())), d, c)
			return
		}
		back := ship.JsonFromEEBUSJson([]byte(wire))
		fmt.Fprintln(bi, strings.TrimSpace(pb.String()))
		fmt.Fprintf(bo, "%s %s %s depth=%d nodes=%d\n", hexOrDash([]byte(wire)), hexOrDash(back), hexOrDash([]byte(in)), d, c)
	}
	for _, doc := range jsonCorpus() {
		emit(doc)
	}
	g := &jgen{rnd: rand.New(rand.NewSource(*seed))}
	for i := 0; i < *n; i++ {
		g.nasty = []int{0, 0, 0, 0, 1, 2}[g.rnd.Intn(6)]
		g.nkey = 0
		emit(g.object(1+g.rnd.Intn(5), 1))
	}
	bi.Flush()
	bo.Flush()
	fi.Close()
	fo.Close()
	return 0
}
