//go:build verif

package main

// Engine pairstep (C03): a client-role and a server-role ship.ShipConnection joined by two FIFO queues that the
// harness owns. A scenario fixes the server's trust configuration and the SHIP ids each side has stored for the
// other; events (Run of either side, delivery of the head of a queue, timer expiry, user approve / cancel on the
// server side, propagation of a close to the other side, the sleeping closers) are drawn by a seeded PRNG among
// the ones the implementation's state admits. Every event is applied to the real connections and written to the
// event file; the Lean model (shipdrv pair) replays the same events; both print per-side observations.
// Modes: timely (a timer fires only when nothing else can happen, the prolongation-request timer first) and
// premature (a bounded number of early expiries). Fixed scenarios replay the open known finding.

import (
	"bufio"
	"flag"
	"fmt"
	"math/rand"
	"os"
	"strings"
	"sync"
	"time"

	"github.com/enbility/ship-go/api"
	"github.com/enbility/ship-go/ship"
)

// writer of one side: what it accepts goes to the queue towards the peer
type pipeWriter struct {
	r      *rec
	mu     sync.Mutex
	closed bool
	out    *[][]byte
	reason string
}

func (w *pipeWriter) InitDataProcessing(api.WebsocketDataReaderInterface) {}
func (w *pipeWriter) WriteMessageToWebsocketConnection(msg []byte) error {
	w.mu.Lock()
	defer w.mu.Unlock()
	if w.closed {
		return fmt.Errorf("connection is closed")
	}
	*w.out = append(*w.out, append([]byte{}, msg...))
	w.r.add("W:" + canonFrame(msg))
	return nil
}
func (w *pipeWriter) CloseDataConnection(code int, reason string) {
	w.mu.Lock()
	w.closed = true
	w.mu.Unlock()
	rc := "err"
	switch reason {
	case "":
		rc = "none"
	case "close":
		rc = "close"
	case "Node rejected by application":
		rc = "rejected"
	}
	w.r.add(fmt.Sprintf("WSC:%d:%s", code, rc))
}
func (w *pipeWriter) IsDataConnectionClosed() (bool, error) {
	w.mu.Lock()
	defer w.mu.Unlock()
	if w.closed {
		return true, fmt.Errorf("connection is closed")
	}
	return false, nil
}
func (w *pipeWriter) isClosed() bool {
	w.mu.Lock()
	defer w.mu.Unlock()
	return w.closed
}
func (w *pipeWriter) setClosed() {
	w.mu.Lock()
	w.closed = true
	w.mu.Unlock()
}

type pairSide struct {
	name    string
	conn    *ship.ShipConnection
	w       *pipeWriter
	p       *mockProvider
	r       *rec
	inq     *[][]byte // queue towards this side
	started bool
	pendRej bool
	cbSeen  bool
}

func (s *pairSide) snap() string {
	st, t, tt, _, _ := s.conn.VerifSnapshot()
	return fmt.Sprintf("st=%d t=%s tt=%d buf=0 ws=%s", st, b01(t), tt, b01(s.w.isClosed()))
}

func (s *pairSide) state() (uint, bool, uint) {
	st, t, tt, _, _ := s.conn.VerifSnapshot()
	return st, t, tt
}

type pairScenario struct {
	header string
	events []string
	outs   []string
}

// run f with panic capture and a deadline; returns "" or PANIC/HANG
func pairGuard(f func()) string {
	done := make(chan string, 1)
	go func() {
		defer func() {
			if x := recover(); x != nil {
				done <- fmt.Sprint("PANIC:", x)
				return
			}
			done <- ""
		}()
		f()
	}()
	select {
	case s := <-done:
		return s
	case <-time.After(5 * time.Second):
		return "HANG"
	}
}

func runPairScenario(seed int64, maxEv int, premature int, fixed []string, cfg string) *pairScenario {
	rnd := rand.New(rand.NewSource(seed))
	envS := env{paired: rnd.Intn(3) == 0, auto: rnd.Intn(4) == 0, allow: rnd.Intn(3) != 0}
	rels := []string{"f", "f", "s", "s", "m"}
	relC, relS := rels[rnd.Intn(len(rels))], rels[rnd.Intn(len(rels))]
	if cfg != "" { // <paired><auto><allow>:<relC>:<relS>
		parts := strings.Split(cfg, ":")
		envS = env{paired: parts[0][0] == '1', auto: parts[0][1] == '1', allow: parts[0][2] == '1'}
		relC, relS = parts[1], parts[2]
	}
	stored := func(rel, peerID string) string {
		switch rel {
		case "s":
			return peerID
		case "m":
			return "SomeOtherShipID"
		}
		return ""
	}
	var qcs, qsc [][]byte
	rc, rs := &rec{}, &rec{}
	wc := &pipeWriter{r: rc, out: &qcs}
	ws_ := &pipeWriter{r: rs, out: &qsc}
	pc, ps := &mockProvider{r: rc}, &mockProvider{r: rs}
	pc.set(env{})
	ps.set(envS)
	c := &pairSide{name: "C", w: wc, p: pc, r: rc, inq: &qsc}
	s := &pairSide{name: "S", w: ws_, p: ps, r: rs, inq: &qcs}
	c.conn = ship.NewConnectionHandler(pc, wc, ship.ShipRoleClient, "ClientShipID", "ski-server", stored(relC, "ServerShipID"))
	s.conn = ship.NewConnectionHandler(ps, ws_, ship.ShipRoleServer, "ServerShipID", "ski-client", stored(relS, "ClientShipID"))
	sc := &pairScenario{header: fmt.Sprintf("new envS=%s%s%s relC=%s relS=%s", b01(envS.paired), b01(envS.auto), b01(envS.allow), relC, relS)}
	side := func(n string) *pairSide {
		if n == "C" {
			return c
		}
		return s
	}
	other := func(x *pairSide) *pairSide {
		if x == c {
			return s
		}
		return c
	}
	start := time.Now()
	early := 0
	apply := func(ev string) bool {
		var res string
		switch {
		case strings.HasPrefix(ev, "start"):
			x := side(ev[5:])
			x.started = true
			res = pairGuard(func() { x.conn.Run() })
		case strings.HasPrefix(ev, "del"):
			x := side(ev[3:])
			msg := (*x.inq)[0]
			*x.inq = (*x.inq)[1:]
			res = pairGuard(func() { x.conn.HandleIncomingWebsocketMessage(msg) })
		case strings.HasPrefix(ev, "to"):
			x := side(ev[2:])
			res = pairGuard(func() { x.conn.VerifFireTimeout() })
		case ev == "approve":
			res = pairGuard(func() { s.conn.ApprovePendingHandshake() })
		case ev == "cancel":
			res = pairGuard(func() { s.conn.AbortPendingHandshake() })
		case strings.HasPrefix(ev, "prop"):
			x := side(ev[4:])
			x.w.setClosed()
			res = pairGuard(func() { x.conn.ReportConnectionError(fmt.Errorf("peer closed the connection")) })
		case strings.HasPrefix(ev, "rej"):
			x := side(ev[3:])
			x.pendRej = false
			res = pairGuard(func() { x.conn.CloseConnection(false, 4452, "Node rejected by application") })
		}
		// frames on their way to a side that has closed are never read
		if c.w.isClosed() {
			qsc = nil
		}
		if s.w.isClosed() {
			qcs = nil
		}
		line := ""
		for _, x := range []*pairSide{c, s} {
			obs := x.r.take()
			for _, o := range obs {
				if o == "S15" || o == "S16" {
					x.pendRej = true
				}
				if strings.HasPrefix(o, "CB:") {
					x.cbSeen = true
					x.pendRej = false
				}
			}
			if x == s {
				line += " || "
			}
			line += x.name + ": " + strings.Join(obs, " ") + " | " + x.snap()
		}
		line += fmt.Sprintf(" || q=%d,%d", len(qcs), len(qsc))
		if res != "" {
			line = res + " " + line
		}
		sc.events = append(sc.events, ev)
		sc.outs = append(sc.outs, line)
		return res == ""
	}
	enabled := func() (internal []string, timeouts []string, user []string) {
		for _, x := range []*pairSide{c, s} {
			if !x.started {
				internal = append(internal, "start"+x.name)
			}
			if len(*x.inq) > 0 && !x.w.isClosed() {
				internal = append(internal, "del"+x.name)
			}
			if other(x).w.isClosed() && !x.w.isClosed() && len(*x.inq) == 0 {
				internal = append(internal, "prop"+x.name)
			}
			if x.pendRej && !x.cbSeen {
				internal = append(internal, "rej"+x.name)
			}
			if _, t, _ := x.state(); t {
				timeouts = append(timeouts, "to"+x.name)
			}
		}
		st, _, _ := s.state()
		if st == 11 {
			user = append(user, "approve", "cancel")
		} else if st == 8 {
			user = append(user, "cancel")
		}
		return
	}
	firesFirst := func(ev string) bool {
		x := side(ev[2:])
		_, ot, ott := other(x).state()
		_, _, tt := x.state()
		return !(ot && ott == 1 && tt != 1)
	}
	if fixed != nil {
		for _, ev := range fixed {
			if !apply(ev) {
				break
			}
		}
		return sc
	}
	userActs := rnd.Intn(3) // 0: the user never decides, 1: approves at some point, 2: cancels at some point
	for n := 0; n < maxEv; n++ {
		// the sleeping closers of the implementation fire on their own after 1 s: keep clear of that
		if time.Since(start) > 400*time.Millisecond {
			break
		}
		internal, timeouts, user := enabled()
		var cands []string
		cands = append(cands, internal...)
		if len(internal) == 0 {
			for _, t := range timeouts {
				if firesFirst(t) {
					cands = append(cands, t)
				}
			}
		} else if early < premature && len(timeouts) > 0 && rnd.Intn(6) == 0 {
			cands = []string{timeouts[rnd.Intn(len(timeouts))]}
			early++
		}
		for _, u := range user {
			if (u == "approve" && userActs == 1 || u == "cancel" && userActs == 2) && rnd.Intn(4) == 0 {
				cands = append(cands, u)
			}
		}
		if len(cands) == 0 && len(internal) == 0 && len(timeouts) == 0 && (len(user) == 0 || userActs == 0) {
			// nothing can happen any more (apart from a decision the user is not going to take)
			if k := len(sc.outs); k > 0 {
				sc.outs[k-1] += " end=quiescent"
			}
			break
		}
		if len(cands) == 0 {
			if len(user) > 0 && userActs != 0 {
				cands = []string{map[int]string{1: "approve", 2: "cancel"}[userActs]}
				if cands[0] == "approve" {
					if st, _, _ := s.state(); st != 11 {
						break
					}
				}
			} else {
				break
			}
		}
		if !apply(cands[rnd.Intn(len(cands))]) {
			break
		}
	}
	return sc
}

func pairstepMain(args []string) int {
	fs := flag.NewFlagSet("pairstep", flag.ExitOnError)
	seed := fs.Int64("seed", 1, "PRNG seed")
	n := fs.Int("n", 500, "scenarios")
	maxEv := fs.Int("events", 60, "max events per scenario")
	premature := fs.Int("premature", 0, "premature timer expiries allowed per scenario")
	fixed := fs.String("fixed", "", "comma separated events of one fixed scenario (with -cfg)")
	cfg := fs.String("cfg", "", "configuration of the fixed scenario: <paired><auto><allow>:<relC>:<relS>")
	outIn := fs.String("in", "pair_in.txt", "events")
	outImpl := fs.String("impl", "pair_impl.txt", "implementation observations")
	_ = fs.Parse(args)
	var res []*pairScenario
	if *fixed != "" {
		res = append(res, runPairScenario(*seed, *maxEv, *premature, strings.Split(*fixed, ","), *cfg))
	} else {
		res = make([]*pairScenario, *n)
		var wg sync.WaitGroup
		sem := make(chan struct{}, 32)
		for i := 0; i < *n; i++ {
			wg.Add(1)
			sem <- struct{}{}
			go func(i int) {
				defer wg.Done()
				defer func() { <-sem }()
				res[i] = runPairScenario(*seed*92821+int64(i), *maxEv, *premature, nil, "")
			}(i)
		}
		wg.Wait()
	}
	fi, _ := os.Create(*outIn)
	fo, _ := os.Create(*outImpl)
	bi, bo := bufio.NewWriter(fi), bufio.NewWriter(fo)
	for _, sc := range res {
		fmt.Fprintln(bi, sc.header)
		fmt.Fprintln(bo, "new")
		for k := range sc.events {
			fmt.Fprintln(bi, sc.events[k])
			fmt.Fprintln(bo, sc.outs[k])
		}
	}
	bi.Flush()
	bo.Flush()
	fi.Close()
	fo.Close()
	return 0
}
