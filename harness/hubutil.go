//go:build verif

package main

// Shared pieces for engines that run real hubs: recording HubReader, fake mDNS, certificates with
// chosen Subject Key Identifiers, free ports.

import (
	"crypto"
	"crypto/ecdsa"
	"crypto/ed25519"
	"crypto/elliptic"
	"crypto/rand"
	"crypto/rsa"
	"crypto/sha1"
	"crypto/tls"
	"crypto/x509"
	"crypto/x509/pkix"
	"encoding/asn1"
	"encoding/hex"
	"fmt"
	"math/big"
	"net"
	"sync"
	"time"

	"github.com/enbility/ship-go/api"
)

// ---------------------------------------------------------------- HubReader

type hubEvent struct {
	at   time.Time
	kind string
	ski  string
	arg  string
}

type recReader struct {
	mu        sync.Mutex
	events    []hubEvent
	allowWait bool
	onSetup   func(ski string, w api.ShipConnectionDataWriterInterface) api.ShipConnectionDataReaderInterface
}

func (r *recReader) add(kind, ski, arg string) {
	r.mu.Lock()
	r.events = append(r.events, hubEvent{time.Now(), kind, ski, arg})
	r.mu.Unlock()
}

func (r *recReader) snapshot() []hubEvent {
	r.mu.Lock()
	defer r.mu.Unlock()
	return append([]hubEvent{}, r.events...)
}

func (r *recReader) RemoteSKIConnected(ski string)    { r.add("connected", ski, "") }
func (r *recReader) RemoteSKIDisconnected(ski string) { r.add("disconnected", ski, "") }
func (r *recReader) SetupRemoteDevice(ski string, w api.ShipConnectionDataWriterInterface) api.ShipConnectionDataReaderInterface {
	r.add("setup", ski, "")
	if r.onSetup != nil {
		return r.onSetup(ski, w)
	}
	return &nullSpine{}
}
func (r *recReader) VisibleRemoteServicesUpdated(entries []api.RemoteService) {
	r.add("visible", "", fmt.Sprint(len(entries)))
}
func (r *recReader) ServiceShipIDUpdate(ski string, id string) { r.add("shipid", ski, id) }
func (r *recReader) ServicePairingDetailUpdate(ski string, d *api.ConnectionStateDetail) {
	r.add("pairing", ski, fmt.Sprint(uint(d.State())))
}
func (r *recReader) AllowWaitingForTrust(ski string) bool {
	r.add("allowwait", ski, "")
	r.mu.Lock()
	defer r.mu.Unlock()
	return r.allowWait
}

type nullSpine struct{}

func (*nullSpine) HandleShipPayloadMessage([]byte) {}

// ---------------------------------------------------------------- fake mDNS

type fakeMdns struct {
	mu         sync.Mutex
	cb         api.MdnsReportInterface
	entries    map[string]*api.MdnsEntry
	announces  int
	unannounce int
	requests   int
	shutdown   bool
	autoaccept bool
}

func newFakeMdns() *fakeMdns { return &fakeMdns{entries: map[string]*api.MdnsEntry{}} }

func (m *fakeMdns) Start(cb api.MdnsReportInterface) error {
	m.mu.Lock()
	m.cb = cb
	m.mu.Unlock()
	return nil
}
func (m *fakeMdns) Shutdown() {
	m.mu.Lock()
	m.shutdown = true
	m.mu.Unlock()
}
func (m *fakeMdns) AnnounceMdnsEntry() error {
	m.mu.Lock()
	m.announces++
	m.mu.Unlock()
	return nil
}
func (m *fakeMdns) UnannounceMdnsEntry() {
	m.mu.Lock()
	m.unannounce++
	m.mu.Unlock()
}
func (m *fakeMdns) SetAutoAccept(b bool) {
	m.mu.Lock()
	m.autoaccept = b
	m.mu.Unlock()
}
func (m *fakeMdns) QRCodeText() string { return "" }

func (m *fakeMdns) copyEntries() map[string]*api.MdnsEntry {
	res := map[string]*api.MdnsEntry{}
	for k, v := range m.entries {
		e := *v
		e.Addresses = append([]net.IP{}, v.Addresses...)
		res[k] = &e
	}
	return res
}

func (m *fakeMdns) RequestMdnsEntries() {
	m.mu.Lock()
	m.requests++
	cb := m.cb
	sd := m.shutdown
	c := m.copyEntries()
	m.mu.Unlock()
	if cb != nil && !sd {
		go cb.ReportMdnsEntries(c, false)
	}
}

// publish a service and report, as the real manager does after a resolver event
func (m *fakeMdns) publish(e *api.MdnsEntry) {
	m.mu.Lock()
	m.entries[e.Ski] = e
	cb := m.cb
	c := m.copyEntries()
	m.mu.Unlock()
	if cb != nil {
		go cb.ReportMdnsEntries(c, true)
	}
}

func (m *fakeMdns) withdraw(ski string) {
	m.mu.Lock()
	delete(m.entries, ski)
	cb := m.cb
	c := m.copyEntries()
	m.mu.Unlock()
	if cb != nil {
		go cb.ReportMdnsEntries(c, true)
	}
}

// ---------------------------------------------------------------- certificates

type certSpec struct {
	ski    []byte   // nil: no extension at all; otherwise these bytes
	useKey bool     // ski = SHA-1 of the key (ignores ski)
	alg    string   // "" / "ecdsa", "ed25519", "rsa"
	chain  [][]byte // further certificates presented after the leaf
	serial *big.Int // nil: random
	cn     string   // "": the cn argument
}

type madeCert struct {
	tls     tls.Certificate
	ext     []byte // SubjectKeyId as present in the certificate (nil if none)
	keyHash []byte // SHA-1 of the subject public key bit string
}

func makeCert(spec certSpec, cn string) (*madeCert, error) {
	var priv crypto.Signer
	sigAlg := x509.ECDSAWithSHA256
	schemes := []tls.SignatureScheme{tls.ECDSAWithP256AndSHA256}
	switch spec.alg {
	case "ed25519":
		_, k, err := ed25519.GenerateKey(rand.Reader)
		if err != nil {
			return nil, err
		}
		priv, sigAlg, schemes = k, x509.PureEd25519, []tls.SignatureScheme{tls.Ed25519}
	case "rsa":
		k, err := rsa.GenerateKey(rand.Reader, 2048)
		if err != nil {
			return nil, err
		}
		priv, sigAlg, schemes = k, x509.SHA256WithRSA, []tls.SignatureScheme{tls.PSSWithSHA256, tls.PKCS1WithSHA256}
	default:
		k, err := ecdsa.GenerateKey(elliptic.P256(), rand.Reader)
		if err != nil {
			return nil, err
		}
		priv = k
	}
	serial, _ := rand.Int(rand.Reader, big.NewInt(1<<62))
	if spec.serial != nil {
		serial = spec.serial
	}
	if spec.cn != "" {
		cn = spec.cn
	}
	mk := func(ski []byte) ([]byte, *x509.Certificate, error) {
		tmpl := x509.Certificate{
			SignatureAlgorithm:    sigAlg,
			SerialNumber:          serial,
			Subject:               pkix.Name{CommonName: cn, Organization: []string{"verif"}},
			NotBefore:             time.Now().Add(-time.Hour),
			NotAfter:              time.Now().Add(24 * time.Hour),
			KeyUsage:              x509.KeyUsageDigitalSignature,
			BasicConstraintsValid: true,
			IsCA:                  false, // a CA template would get an identifier generated when none is given
			SubjectKeyId:          ski,
		}
		der, err := x509.CreateCertificate(rand.Reader, &tmpl, &tmpl, priv.Public(), priv)
		if err != nil {
			return nil, nil, err
		}
		leaf, err := x509.ParseCertificate(der)
		return der, leaf, err
	}
	der, leaf, err := mk(spec.ski)
	if err != nil {
		return nil, err
	}
	// the hash a verifier computes: over the BIT STRING of the SPKI
	var spki struct {
		Algorithm pkix.AlgorithmIdentifier
		PublicKey asn1.BitString
	}
	if _, err := asn1.Unmarshal(leaf.RawSubjectPublicKeyInfo, &spki); err != nil {
		return nil, err
	}
	kh := sha1.Sum(spki.PublicKey.RightAlign())
	if spec.useKey {
		if der, leaf, err = mk(kh[:]); err != nil {
			return nil, err
		}
	}
	return &madeCert{
		tls:     tls.Certificate{Certificate: append([][]byte{der}, spec.chain...), PrivateKey: priv, SupportedSignatureAlgorithms: schemes},
		ext:     leaf.SubjectKeyId,
		keyHash: kh[:],
	}, nil
}

func hexOrNone(b []byte) string {
	if b == nil {
		return "none"
	}
	if len(b) == 0 {
		return "-"
	}
	return hex.EncodeToString(b)
}

func freePort() int {
	l, err := net.Listen("tcp", "127.0.0.1:0")
	if err != nil {
		panic(err)
	}
	defer l.Close()
	return l.Addr().(*net.TCPAddr).Port
}

func parseLeaf(c tls.Certificate) (*x509.Certificate, error) {
	return x509.ParseCertificate(c.Certificate[0])
}
