//go:build verif

package main

// Engine mdnsview (C17).
// Part 1 (lock-step): resolver events (valid and invalid TXT, the local SKI, repeated adds, removes of
// unknown services, address lists with repetitions and IPv6 link-local addresses) are fed to a real
// MdnsManager through the resolver hook; after each event the stored entries are printed for comparison
// with the Lean model.
// Part 2 (ordering): bursts of events on a real manager with a recording report sink; the delivered
// snapshots must never go back in time and the last one must be the final state.

import (
	"bufio"
	"flag"
	"fmt"
	"math/rand"
	"net"
	"os"
	"sort"
	"strings"
	"sync"
	"time"

	"github.com/enbility/ship-go/api"
	"github.com/enbility/ship-go/cert"
	"github.com/enbility/ship-go/hub"
	"github.com/enbility/ship-go/mdns"
)

var viewAddrs = []string{"192.168.1.10", "192.168.1.11", "10.0.0.5", "2001:db8::1", "2001:db8::2", "fe80::1", "fe80::abcd:1", "fd00::7", "169.254.3.4", "::ffff:192.168.1.10"}

func addrID(ip net.IP) int {
	for i, a := range viewAddrs {
		if net.ParseIP(a).String() == ip.String() {
			return i
		}
	}
	return -1
}

type seqSink struct {
	mu    sync.Mutex
	sizes []int
	last  map[string]*api.MdnsEntry
}

func (s *seqSink) ReportMdnsEntries(entries map[string]*api.MdnsEntry, newEntries bool) {
	// a little scheduling noise, as an application callback would have
	if len(entries)%3 == 0 {
		time.Sleep(50 * time.Microsecond)
	}
	s.mu.Lock()
	s.sizes = append(s.sizes, len(entries))
	s.last = entries
	s.mu.Unlock()
}

// a receiver that treats what it is handed as its own (the hub, for one, overwrites the address list of an entry
// it is about to dial): nothing it does may reach the manager's view
type scribbleSink struct{}

func (scribbleSink) ReportMdnsEntries(entries map[string]*api.MdnsEntry, newEntries bool) {
	for k, e := range entries {
		// in place first (the hub sorts the address list of an entry it dials in place), then the fields themselves
		for i := range e.Addresses {
			e.Addresses[i] = net.ParseIP("203.0.113.99")
		}
		for i := range e.Categories {
			e.Categories[i] = 99
		}
		e.Addresses = []net.IP{}
		e.Ski = "scribbled"
		e.Host = "scribbled"
		e.Name = "scribbled"
		e.Port = 1
		delete(entries, k)
	}
}

func entriesLine(m map[string]*api.MdnsEntry, order []string) string {
	var parts []string
	for _, ski := range order {
		e, ok := m[ski]
		if !ok {
			continue
		}
		var ids []string
		for _, a := range e.Addresses {
			ids = append(ids, fmt.Sprint(addrID(a)))
		}
		parts = append(parts, strings.TrimPrefix(ski, "ski")+":"+strings.Join(ids, ","))
	}
	return strings.Join(parts, ";")
}

func mdnsviewMain(args []string) int {
	fs := flag.NewFlagSet("mdnsview", flag.ExitOnError)
	seed := fs.Int64("seed", 1, "PRNG seed")
	n := fs.Int("n", 2000, "histories")
	bursts := fs.Int("bursts", 200, "ordering trials")
	outIn := fs.String("in", "view_in.txt", "events (model input)")
	outImpl := fs.String("impl", "view_impl.txt", "implementation results")
	outOrd := fs.String("ord", "view_ord.txt", "ordering trial results")
	_ = fs.Parse(args)
	rnd := rand.New(rand.NewSource(*seed))
	fi, _ := os.Create(*outIn)
	fo, _ := os.Create(*outImpl)
	bi, bo := bufio.NewWriter(fi), bufio.NewWriter(fo)
	var llIDs []string
	for i, a := range viewAddrs {
		ip := net.ParseIP(a)
		if ip.To4() == nil && ip.IsLinkLocalUnicast() {
			llIDs = append(llIDs, fmt.Sprint(i))
		}
	}
	for h := 0; h < *n; h++ {
		m := mdns.NewMDNS("ski0", "", "", "", "", nil, "local", "svc", 1, nil, mdns.MdnsProviderSelectionGoZeroConfOnly)
		scribble := h%8 == 7
		if scribble {
			m.VerifSetProvider(&fakeProvider{}, scribbleSink{})
		} else {
			m.VerifSetProvider(&fakeProvider{}, nullReport{})
		}
		fmt.Fprintf(bi, "new ll=%s\n", strings.Join(llIDs, ","))
		fmt.Fprintln(bo, "new")
		var order []string // insertion order, as the model keeps it
		nev := 1 + rnd.Intn(14)
		for k := 0; k < nev; k++ {
			skiN := rnd.Intn(5) // ski0 is the local one
			ski := fmt.Sprintf("ski%d", skiN)
			valid := rnd.Intn(6) != 0
			remove := rnd.Intn(4) == 0
			var ips []net.IP
			var ids []string
			for j := rnd.Intn(4); j > 0; j-- {
				id := rnd.Intn(len(viewAddrs))
				ips = append(ips, net.ParseIP(viewAddrs[id]))
				// addresses are compared by their textual form: an IPv4-mapped address is its IPv4 address
				ids = append(ids, fmt.Sprint(addrID(net.ParseIP(viewAddrs[id]))))
			}
			el := map[string]string{"txtvers": "1", "id": "id-" + ski, "path": "/ship/", "ski": ski, "register": "false", "brand": "b"}
			if !valid {
				switch rnd.Intn(4) {
				case 0:
					delete(el, []string{"txtvers", "id", "path", "ski", "register"}[rnd.Intn(5)])
				case 1:
					el["txtvers"] = "2"
				case 2:
					el["register"] = "yes"
				default:
					el = nil
				}
			}
			before := m.VerifRawEntries()
			_, existed := before[ski]
			m.VerifResolve(el, "svc-"+ski, "host.local", ips, 4711, remove)
			if scribble {
				time.Sleep(150 * time.Microsecond) // let the report goroutine reach the receiver
			}
			after := m.VerifRawEntries()
			if _, ok := after[ski]; ok && !existed {
				order = append(order, ski)
			}
			if _, ok := after[ski]; !ok && existed {
				var o2 []string
				for _, s := range order {
					if s != ski {
						o2 = append(o2, s)
					}
				}
				order = o2
			}
			as := "-"
			if len(ids) > 0 {
				as = strings.Join(ids, ",")
			}
			fmt.Fprintf(bi, "ev valid=%s local=%s ski=%d addrs=%s remove=%s\n", b01(valid), b01(skiN == 0), skiN, as, b01(remove))
			fmt.Fprintln(bo, entriesLine(after, order))
		}
	}
	bi.Flush()
	bo.Flush()
	fi.Close()
	fo.Close()

	// part 2: ordering
	ford, _ := os.Create(*outOrd)
	defer ford.Close()
	hubCert, _ := cert.CreateCertificate("unit", "verif", "DE", "mdnsview")
	for t := 0; t < *bursts; t++ {
		if t%3 == 2 {
			// the application behind the real hub: what it is shown last has to be the final set, also when the hub
			// asks for the entries (as RegisterRemoteSKI does) in between
			app := &recReader{}
			m := mdns.NewMDNS("ski0", "", "", "", "", nil, "local", "svc", 1, nil, mdns.MdnsProviderSelectionGoZeroConfOnly)
			h := hub.NewHub(app, m, freePort(), hubCert, api.NewServiceDetails("ski0"))
			m.VerifSetProvider(&fakeProvider{}, h)
			total := 3 + rnd.Intn(12)
			for k := 1; k <= total; k++ {
				ski := fmt.Sprintf("ski%d", k)
				el := map[string]string{"txtvers": "1", "id": "id", "path": "/ship/", "ski": ski, "register": "false"}
				m.VerifResolve(el, "svc", "host.local", []net.IP{net.ParseIP("192.168.1.10")}, 4711, false)
				if rnd.Intn(2) == 0 {
					m.RequestMdnsEntries()
				}
			}
			lastSize := func() (int, int) {
				n, last := 0, -1
				for _, e := range app.snapshot() {
					if e.kind == "visible" {
						n++
						fmt.Sscan(e.arg, &last)
					}
				}
				return n, last
			}
			for i := 0; i < 300; i++ {
				time.Sleep(10 * time.Millisecond)
				if _, l := lastSize(); l == total && i >= 2 {
					break
				}
			}
			time.Sleep(10 * time.Millisecond)
			n, l := lastSize()
			v := "ok"
			if l != total {
				v = "BAD"
			}
			fmt.Fprintf(ford, "%s trial=%d events=%d delivered=%d last=%d wentback=0 sizes=[through the real hub, with requests in between]\n", v, t, total, n, l)
			continue
		}
		sink := &seqSink{}
		m := mdns.NewMDNS("ski0", "", "", "", "", nil, "local", "svc", 1, nil, mdns.MdnsProviderSelectionGoZeroConfOnly)
		m.VerifSetProvider(&fakeProvider{}, sink)
		total := 5 + rnd.Intn(30)
		for k := 1; k <= total; k++ {
			ski := fmt.Sprintf("ski%d", k)
			el := map[string]string{"txtvers": "1", "id": "id", "path": "/ship/", "ski": ski, "register": "false"}
			m.VerifResolve(el, "svc", "host.local", []net.IP{net.ParseIP("192.168.1.10")}, 4711, false)
		}
		if rnd.Intn(2) == 0 {
			m.RequestMdnsEntries()
		}
		// all report goroutines must get their turn, also on a loaded machine
		for i := 0; i < 300; i++ {
			time.Sleep(10 * time.Millisecond)
			sink.mu.Lock()
			done := len(sink.last) == total && i >= 2
			sink.mu.Unlock()
			if done {
				break
			}
		}
		time.Sleep(10 * time.Millisecond)
		sink.mu.Lock()
		sizes := append([]int{}, sink.sizes...)
		lastN := len(sink.last)
		sink.mu.Unlock()
		back := !sort.IntsAreSorted(sizes)
		v := "ok"
		if back || lastN != total {
			v = "BAD"
		}
		fmt.Fprintf(ford, "%s trial=%d events=%d delivered=%d last=%d wentback=%s sizes=%v\n", v, t, total, len(sizes), lastN, b01(back), sizes)
	}
	return 0
}
