//go:build verif

package main

// Engine datapipe (C06, end to end): two real ship.ShipConnection endpoints on real ws.WebsocketConnections, joined by a
// loopback TCP path that can stall. After the handshake side A's application hands numbered SPINE datagrams to its data
// writer (B may do the same towards A); the receiving application may be busy for a while, the path may stall, payloads
// are large enough to fill the socket buffers and the write queue. While the connection stays open every datagram has to
// reach the peer's data reader exactly once, in order, with its content; after a close a gap-free prefix has.

import (
	"bytes"
	"encoding/json"
	"flag"
	"fmt"
	"io"
	"math/rand"
	"net"
	"net/http"
	"os"
	"strings"
	"sync"
	"sync/atomic"
	"time"

	"github.com/enbility/ship-go/api"
	"github.com/enbility/ship-go/model"
	"github.com/enbility/ship-go/ship"
	"github.com/enbility/ship-go/ws"
	"github.com/gorilla/websocket"
)

// a TCP path whose forwarding can be paused (bytes are kept, nothing is lost or reordered)
type stallProxy struct {
	ln      net.Listener
	target  string
	paused  atomic.Bool
	mu      sync.Mutex
	conns   []net.Conn
	stopped atomic.Bool
}

func newStallProxy(target string) *stallProxy {
	ln, err := net.Listen("tcp", "127.0.0.1:0")
	if err != nil {
		panic(err)
	}
	p := &stallProxy{ln: ln, target: target}
	go func() {
		for {
			c, err := ln.Accept()
			if err != nil {
				return
			}
			t, err := net.Dial("tcp", p.target)
			if err != nil {
				c.Close()
				continue
			}
			p.mu.Lock()
			p.conns = append(p.conns, c, t)
			p.mu.Unlock()
			go p.pipe(t, c)
			go p.pipe(c, t)
		}
	}()
	return p
}

func (p *stallProxy) pipe(dst, src net.Conn) {
	buf := make([]byte, 16*1024)
	for {
		for p.paused.Load() && !p.stopped.Load() {
			time.Sleep(2 * time.Millisecond)
		}
		n, err := src.Read(buf)
		if n > 0 {
			if _, werr := dst.Write(buf[:n]); werr != nil {
				break
			}
		}
		if err != nil {
			break
		}
	}
	dst.Close()
	src.Close()
}

func (p *stallProxy) cut() {
	p.mu.Lock()
	cs := p.conns
	p.conns = nil
	p.mu.Unlock()
	for _, c := range cs {
		c.Close()
	}
}

func (p *stallProxy) close() {
	p.stopped.Store(true)
	p.ln.Close()
	p.cut()
}

type pipeReader struct {
	mu     sync.Mutex
	got    [][]byte
	stalls []time.Duration // the application is busy for stalls[i] when it gets its (stallAt[i])-th datagram
	stallAt []int
}

func (r *pipeReader) HandleShipPayloadMessage(m []byte) {
	r.mu.Lock()
	r.got = append(r.got, append([]byte{}, m...))
	n := len(r.got)
	var d time.Duration
	for i, at := range r.stallAt {
		if at == n {
			d = r.stalls[i]
		}
	}
	r.mu.Unlock()
	if d > 0 {
		time.Sleep(d)
	}
}

func (r *pipeReader) snapshot() [][]byte {
	r.mu.Lock()
	defer r.mu.Unlock()
	return append([][]byte{}, r.got...)
}

type pipeInfo struct {
	reader   *pipeReader
	paired   bool
	mu       sync.Mutex
	writer   api.ShipConnectionDataWriterInterface
	closed   bool
	complete chan struct{}
	once     sync.Once
	setups   int
}

func newPipeInfo(paired bool) *pipeInfo {
	return &pipeInfo{reader: &pipeReader{}, paired: paired, complete: make(chan struct{})}
}
func (i *pipeInfo) IsRemoteServiceForSKIPaired(string) bool { return i.paired }
func (i *pipeInfo) IsAutoAcceptEnabled() bool               { return false }
func (i *pipeInfo) ReportServiceShipID(string, string)      {}
func (i *pipeInfo) AllowWaitingForTrust(string) bool        { return true }
func (i *pipeInfo) HandleConnectionClosed(api.ShipConnectionInterface, bool) {
	i.mu.Lock()
	i.closed = true
	i.mu.Unlock()
}
func (i *pipeInfo) HandleShipHandshakeStateUpdate(_ string, st model.ShipState) {}
func (i *pipeInfo) SetupRemoteDevice(_ string, w api.ShipConnectionDataWriterInterface) api.ShipConnectionDataReaderInterface {
	i.mu.Lock()
	i.writer = w
	i.setups++
	i.mu.Unlock()
	i.once.Do(func() { close(i.complete) })
	return i.reader
}
func (i *pipeInfo) isClosed() bool {
	i.mu.Lock()
	defer i.mu.Unlock()
	return i.closed
}

// string contents that have to survive the way into the SHIP data envelope and back: escapes, characters Go's encoder
// treats specially, text that looks like an escape, like the envelope's own member names or like the placeholder
var pipeStrings = []string{
	`plain`, `a\"b\\c`, `<tag> & \"more\"`, `\\u0026 is not an ampersand`, `\\u003cb\\u003e`, `\u00e4\u00f6\u20ac`, `äöü€ 漢字`,
	`{\"place\":\"holder\"}`, `\"payload\":{}`, `datagram`, `tab\there`, `line\nbreak`, `slash\/slash`, `\\`, `\\\\u0041`,
}

func pipeDatagram(from string, n, pad int, rnd *rand.Rand) []byte {
	// content that exercises the wire transform a little: nested objects, arrays of objects, numbers, escapes
	if pad < 0 {
		// the shortest datagrams there are (a few bytes on the wire)
		return []byte(fmt.Sprintf(`{"datagram":%d}`, 1000000+n))
	}
	text := strings.Repeat("x", pad)
	special := pipeStrings[rnd.Intn(len(pipeStrings))]
	return []byte(fmt.Sprintf(`{"datagram":{"header":{"from":"%s","msgCounter":%d,"ack":%v},"payload":{"cmd":[{"pad":"%s"},{"n":[1,2,%d]},{"t":"%s"}]}}}`,
		from, n, n%2 == 0, text, rnd.Intn(1000), special))
}

// the document as a value (strings compared by content, not by their escapes), re-encoded canonically
func compactJSON(b []byte) string {
	var v any
	dec := json.NewDecoder(bytes.NewReader(b))
	dec.UseNumber()
	if dec.Decode(&v) != nil {
		return "unparsable:" + string(b)
	}
	out, err := json.Marshal(v)
	if err != nil {
		return "unparsable:" + string(b)
	}
	return string(out)
}

type pipeResult struct {
	line string
	bad  []string
}

func runPipeScenario(id int, seed int64) *pipeResult {
	rnd := rand.New(rand.NewSource(seed))
	res := &pipeResult{}
	bad := func(f string, a ...any) { res.bad = append(res.bad, fmt.Sprintf(f, a...)) }
	serverPaired := rnd.Intn(4) != 0
	infoA, infoB := newPipeInfo(true), newPipeInfo(serverPaired)
	var connB *ship.ShipConnection
	var dhB *ws.WebsocketConnection
	serverReady := make(chan struct{})
	up := websocket.Upgrader{CheckOrigin: func(*http.Request) bool { return true }}
	ln, err := net.Listen("tcp", "127.0.0.1:0")
	if err != nil {
		bad("listen: %v", err)
		return res
	}
	srv := &http.Server{Handler: http.HandlerFunc(func(w http.ResponseWriter, r *http.Request) {
		c, err := up.Upgrade(w, r, nil)
		if err != nil {
			return
		}
		dhB = ws.NewWebsocketConnection(c, "ski-a")
		connB = ship.NewConnectionHandler(infoB, dhB, ship.ShipRoleServer, "ShipB", "ski-a", "ShipA")
		connB.Run()
		close(serverReady)
	})}
	go func() { _ = srv.Serve(ln) }()
	defer srv.Close()
	proxy := newStallProxy(ln.Addr().String())
	defer proxy.close()
	c, resp, err := websocket.DefaultDialer.Dial("ws://"+proxy.ln.Addr().String(), nil)
	if err != nil {
		bad("dial: %v", err)
		return res
	}
	resp.Body.Close()
	dhA := ws.NewWebsocketConnection(c, "ski-b")
	connA := ship.NewConnectionHandler(infoA, dhA, ship.ShipRoleClient, "ShipA", "ski-b", "ShipB")

	// what the applications will do, decided up front
	countAB := 20 + rnd.Intn(200)
	countBA := 0
	if rnd.Intn(2) == 0 {
		countBA = 10 + rnd.Intn(100)
	}
	padAB := []int{-1, 10, 2000, 70000}[rnd.Intn(4)]
	padBA := []int{-1, 10, 2000, 70000}[rnd.Intn(4)]
	for k := rnd.Intn(3); k > 0; k-- {
		infoB.reader.stallAt = append(infoB.reader.stallAt, 1+rnd.Intn(countAB))
		infoB.reader.stalls = append(infoB.reader.stalls, time.Duration(200+rnd.Intn(2300))*time.Millisecond)
	}
	if countBA > 0 && rnd.Intn(2) == 0 {
		infoA.reader.stallAt = append(infoA.reader.stallAt, 1+rnd.Intn(countBA))
		infoA.reader.stalls = append(infoA.reader.stalls, time.Duration(200+rnd.Intn(1500))*time.Millisecond)
	}
	pathStall := time.Duration(0)
	if rnd.Intn(3) == 0 {
		pathStall = time.Duration(300+rnd.Intn(2500)) * time.Millisecond
	}
	ending := []string{"open", "open", "open", "graceA", "cut", "closeB"}[rnd.Intn(6)]
	earlyWrites := rnd.Intn(2) == 0 // A's application starts to send from inside its setup callback's goroutine, at once

	var sentAB, sentBA [][]byte
	var sentMu sync.Mutex
	sender := func(from string, info *pipeInfo, count, pad int, sent *[][]byte, wg *sync.WaitGroup) {
		defer wg.Done()
		select {
		case <-info.complete:
		case <-time.After(20 * time.Second):
			return
		}
		if !earlyWrites {
			time.Sleep(time.Duration(rnd.Intn(20)) * time.Millisecond)
		}
		info.mu.Lock()
		w := info.writer
		info.mu.Unlock()
		srnd := rand.New(rand.NewSource(seed*7 + int64(len(from)) + int64(pad)))
		for n := 1; n <= count; n++ {
			d := pipeDatagram(from, n, pad, srnd)
			sentMu.Lock()
			*sent = append(*sent, d)
			sentMu.Unlock()
			w.WriteShipMessageWithPayload(d)
		}
	}
	connA.Run()
	select {
	case <-serverReady:
	case <-time.After(10 * time.Second):
		bad("the websocket server side was never set up")
		return res
	}
	if !serverPaired {
		go func() {
			time.Sleep(time.Duration(50+rnd.Intn(300)) * time.Millisecond)
			connB.ApprovePendingHandshake()
		}()
	}
	var wg sync.WaitGroup
	wg.Add(2)
	go sender("A", infoA, countAB, padAB, &sentAB, &wg)
	go sender("B", infoB, countBA, padBA, &sentBA, &wg)
	if pathStall > 0 {
		go func() {
			time.Sleep(time.Duration(100+rnd.Intn(400)) * time.Millisecond)
			proxy.paused.Store(true)
			time.Sleep(pathStall)
			proxy.paused.Store(false)
		}()
	}
	sendersDone := make(chan struct{})
	go func() { wg.Wait(); close(sendersDone) }()
	select {
	case <-sendersDone:
	case <-time.After(60 * time.Second):
		bad("C06: an application write did not return within 60 s although the connection was not closed")
	}
	// a closing event after everything was handed over (what is still under way may be lost then, nothing else)
	switch ending {
	case "graceA":
		time.Sleep(time.Duration(rnd.Intn(300)) * time.Millisecond)
		connA.CloseConnection(true, 0, "bye")
	case "closeB":
		time.Sleep(time.Duration(rnd.Intn(300)) * time.Millisecond)
		connB.CloseConnection(false, 0, "")
	case "cut":
		time.Sleep(time.Duration(rnd.Intn(300)) * time.Millisecond)
		proxy.cut()
	}
	// quiescence: nothing new for 1.5 s (after the stalls are over), at most 45 s
	deadline := time.Now().Add(45 * time.Second)
	last, since := -1, time.Now()
	for time.Now().Before(deadline) {
		n := len(infoA.reader.snapshot()) + len(infoB.reader.snapshot())
		if n != last {
			last, since = n, time.Now()
		}
		if ending == "open" && len(infoB.reader.snapshot()) >= len(sentAB) && len(infoA.reader.snapshot()) >= len(sentBA) {
			break
		}
		if time.Since(since) > 4*time.Second {
			break
		}
		time.Sleep(20 * time.Millisecond)
	}
	closedA, _ := dhA.IsDataConnectionClosed()
	closedB := true
	if dhB != nil {
		closedB, _ = dhB.IsDataConnectionClosed()
	}
	open := !closedA && !closedB && !infoA.isClosed() && !infoB.isClosed()
	verdict := func(dir string, sent [][]byte, got [][]byte) {
		if len(got) > len(sent) {
			bad("C06: %s: the reader got %d datagrams, %d were sent (duplicates or inventions)", dir, len(got), len(sent))
		}
		for k := 0; k < len(got) && k < len(sent); k++ {
			if compactJSON(got[k]) != compactJSON(sent[k]) {
				var hdr struct {
					Datagram struct {
						Header struct {
							MsgCounter int `json:"msgCounter"`
						} `json:"header"`
					} `json:"datagram"`
				}
				_ = json.Unmarshal(got[k], &hdr)
				bad("C06: %s: position %d of what the reader got is datagram %d (sent at that position: %d): lost, reordered, duplicated or altered", dir, k+1, hdr.Datagram.Header.MsgCounter, k+1)
				return
			}
		}
		if open && len(got) < len(sent) {
			bad("C06: %s: the connection is open on both sides and nothing is under way any more, yet only %d of %d datagrams reached the reader (first missing: %d)", dir, len(got), len(sent), len(got)+1)
		}
	}
	sentMu.Lock()
	sAB, sBA := sentAB, sentBA
	sentMu.Unlock()
	verdict("A->B", sAB, infoB.reader.snapshot())
	verdict("B->A", sBA, infoA.reader.snapshot())
	for _, p := range []struct {
		n string
		i *pipeInfo
	}{{"A", infoA}, {"B", infoB}} {
		p.i.mu.Lock()
		if p.i.setups > 1 {
			bad("C06: %s was set up %d times", p.n, p.i.setups)
		}
		p.i.mu.Unlock()
	}
	res.line = fmt.Sprintf("paired=%s ab=%dx%d ba=%dx%d stallsB=%v stallsA=%v path=%dms early=%s end=%s open=%s gotB=%d gotA=%d",
		b01(serverPaired), len(sAB), padAB, len(sBA), padBA, infoB.reader.stalls, infoA.reader.stalls, pathStall.Milliseconds(), b01(earlyWrites), ending, b01(open),
		len(infoB.reader.snapshot()), len(infoA.reader.snapshot()))
	if open {
		connA.CloseConnection(false, 0, "")
		connB.CloseConnection(false, 0, "")
	}
	_ = io.EOF
	return res
}

func datapipeMain(args []string) int {
	fs := flag.NewFlagSet("datapipe", flag.ExitOnError)
	seed := fs.Int64("seed", 1, "PRNG seed")
	n := fs.Int("n", 24, "scenarios")
	workers := fs.Int("workers", 12, "parallel scenarios")
	only := fs.Int("only", -1, "run only this scenario")
	out := fs.String("out", "datapipe_out.txt", "result lines")
	_ = fs.Parse(args)
	res := make([]*pipeResult, *n)
	var wg sync.WaitGroup
	sem := make(chan struct{}, *workers)
	for i := 0; i < *n; i++ {
		if *only >= 0 && i != *only {
			continue
		}
		wg.Add(1)
		sem <- struct{}{}
		go func(i int) {
			defer wg.Done()
			defer func() { <-sem }()
			res[i] = runPipeScenario(i, *seed*15485863+int64(i))
		}(i)
	}
	wg.Wait()
	f, _ := os.Create(*out)
	defer f.Close()
	for i, r := range res {
		if r == nil {
			continue
		}
		fmt.Fprintf(f, "S %d %s\n", i, r.line)
		for _, b := range r.bad {
			fmt.Fprintf(f, "BAD %d %s\n", i, b)
		}
	}
	return 0
}
