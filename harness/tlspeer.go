//go:build verif

package main

// Engine tlspeer (C02): a real hub on loopback against adversarial TLS / websocket peers.
// Inbound: client certificates without identifier, with identifiers of every length, copied from another
// certificate, or honest; TLS 1.1/1.2/1.3; sub-protocol offers none/ship/other/both.
// Outbound: the hub dials a harness server whose certificate yields the dialled SKI or not.
// For every attempt the harness records whether any SHIP message was processed / sent and under which
// SKI, and prints the certificate facts for the Lean decision model.

import (
	"bufio"
	"crypto/tls"
	"encoding/hex"
	"flag"
	"fmt"
	"math/rand"
	"net"
	"net/http"
	"os"
	"strings"
	"sync"
	"time"

	"github.com/enbility/ship-go/api"
	"github.com/enbility/ship-go/cert"
	"github.com/enbility/ship-go/hub"
	"github.com/gorilla/websocket"
)

func tlsMinorName(v uint16) int {
	switch v {
	case tls.VersionTLS10:
		return 0
	case tls.VersionTLS11:
		return 1
	case tls.VersionTLS12:
		return 2
	default:
		return 3
	}
}

type tlsTrial struct {
	in   string
	impl string
}

func runInbound(id int, rnd *rand.Rand, port int, reader *recReader, victim *madeCert) tlsTrial {
	// certificate
	kinds := []string{"none", "noext", "len", "len", "copied", "honest", "honest", "honest", "copied-ed25519", "copied-rsa", "honest-ed25519", "chain-victim", "chain-victim-noext", "honest-chain", "forged-after-victim"}
	kind := kinds[rnd.Intn(len(kinds))]
	var mc *madeCert
	var err error
	switch kind {
	case "noext":
		mc, err = makeCert(certSpec{ski: nil}, "peer")
	case "len":
		n := rnd.Intn(41)
		if n == 20 {
			n = 19
		}
		b := make([]byte, n)
		rnd.Read(b)
		mc, err = makeCert(certSpec{ski: b}, "peer")
	case "copied":
		mc, err = makeCert(certSpec{ski: victim.ext}, "peer")
	case "honest":
		mc, err = makeCert(certSpec{useKey: true}, "peer")
	case "copied-ed25519":
		mc, err = makeCert(certSpec{ski: victim.ext, alg: "ed25519"}, "peer")
	case "copied-rsa":
		mc, err = makeCert(certSpec{ski: victim.ext, alg: "rsa"}, "peer")
	case "honest-ed25519":
		mc, err = makeCert(certSpec{useKey: true, alg: "ed25519"}, "peer")
	case "chain-victim":
		// the peer's own leaf carries a wrong-length SKI, the victim's genuine certificate follows in the chain
		mc, err = makeCert(certSpec{ski: []byte{1, 2, 3}, chain: victim.tls.Certificate}, "peer")
	case "chain-victim-noext":
		mc, err = makeCert(certSpec{ski: nil, chain: victim.tls.Certificate}, "peer")
	case "honest-chain":
		mc, err = makeCert(certSpec{useKey: true, chain: victim.tls.Certificate}, "peer")
	case "forged-after-victim":
		// the genuine victim connects first (whatever the hub remembers about checked certificates is there now); then a
		// certificate over another key that copies the victim's identifier, serial number and names
		func() {
			cfg := &tls.Config{InsecureSkipVerify: true, MinVersion: tls.VersionTLS12, Certificates: []tls.Certificate{victim.tls},
				CipherSuites: cert.CipherSuites}
			d := websocket.Dialer{TLSClientConfig: cfg, Subprotocols: []string{"ship"}, HandshakeTimeout: 3 * time.Second}
			if c, resp, derr := d.Dial(fmt.Sprintf("wss://127.0.0.1:%d/ship/", port), nil); derr == nil {
				_ = c.WriteMessage(websocket.BinaryMessage, []byte{0, 0})
				_ = c.SetReadDeadline(time.Now().Add(300 * time.Millisecond))
				_, _, _ = c.ReadMessage()
				c.Close()
				if resp != nil && resp.Body != nil {
					resp.Body.Close()
				}
			}
			time.Sleep(50 * time.Millisecond)
		}()
		if leaf, perr := parseLeaf(victim.tls); perr == nil {
			mc, err = makeCert(certSpec{ski: victim.ext, serial: leaf.SerialNumber, cn: leaf.Subject.CommonName}, "peer")
		} else {
			err = perr
		}
	}
	if err != nil {
		return tlsTrial{"bad-cert " + err.Error(), "skip"}
	}
	maxVer := []uint16{tls.VersionTLS11, tls.VersionTLS12, tls.VersionTLS12, tls.VersionTLS13, tls.VersionTLS13}[rnd.Intn(5)]
	offers := [][]string{{}, {"ship"}, {"ship"}, {"ship"}, {"other"}, {"other", "ship"}, {"ship", "other"}}[rnd.Intn(7)]
	cfg := &tls.Config{InsecureSkipVerify: true, MinVersion: tls.VersionTLS10, MaxVersion: maxVer, CipherSuites: append([]uint16{tls.TLS_ECDHE_ECDSA_WITH_AES_128_CBC_SHA}, cert.CipherSuites...)}
	certField := "none"
	if mc != nil {
		cfg.Certificates = []tls.Certificate{mc.tls}
		certField = hexOrNone(mc.ext) + ":" + hex.EncodeToString(mc.keyHash)
	}
	before := len(reader.snapshot())
	stage := "tls-fail"
	negotiated := ""
	tlsMinor := -1
	shipReply := false
	dialer := websocket.Dialer{TLSClientConfig: cfg, Subprotocols: offers, HandshakeTimeout: 3 * time.Second}
	conn, resp, derr := dialer.Dial(fmt.Sprintf("wss://127.0.0.1:%d/ship/", port), nil)
	if derr == nil {
		stage = "ws"
		negotiated = conn.Subprotocol()
		if tc, ok := conn.UnderlyingConn().(*tls.Conn); ok {
			tlsMinor = tlsMinorName(tc.ConnectionState().Version)
		}
		_ = conn.WriteMessage(websocket.BinaryMessage, []byte{0, 0})
		_ = conn.SetReadDeadline(time.Now().Add(400 * time.Millisecond))
		for {
			mt, msg, rerr := conn.ReadMessage()
			if rerr != nil {
				break
			}
			if mt == websocket.BinaryMessage && len(msg) >= 2 {
				shipReply = true
				stage = "ship"
				break
			}
		}
		conn.Close()
	} else if resp != nil {
		stage = "ws-fail"
	}
	if resp != nil && resp.Body != nil {
		resp.Body.Close()
	}
	time.Sleep(30 * time.Millisecond)
	// under which SKI did the hub treat the peer (if at all)
	skiSeen := ""
	for _, e := range reader.snapshot()[before:] {
		if e.kind == "allowwait" {
			skiSeen = e.ski
		}
	}
	// the model needs what was negotiated; when the TLS handshake failed we pass what would have been offered
	if tlsMinor < 0 {
		tlsMinor = tlsMinorName(maxVer)
	}
	subForModel := negotiated
	if stage == "tls-fail" || stage == "ws-fail" {
		// gorilla's Upgrader picks the first offered protocol it supports
		for _, o := range offers {
			if o == "ship" {
				subForModel = "ship"
			}
		}
	}
	in := fmt.Sprintf("in id=%d kind=%s tls=%d sub=%s cert=%s", id, kind, tlsMinor, hx(subForModel), certField)
	out := "refused stage=" + stage
	if shipReply {
		out = "ship ski=" + skiSeen
	}
	return tlsTrial{in, out}
}

// a TLS websocket server standing in for a remote SHIP node
type fakeNode struct {
	port    int
	mc      *madeCert
	mu      sync.Mutex
	gotInit bool
	conns   int
	srv     *http.Server
}

func startFakeNode(mc *madeCert) *fakeNode {
	n := &fakeNode{mc: mc, port: freePort()}
	up := websocket.Upgrader{CheckOrigin: func(*http.Request) bool { return true }, Subprotocols: []string{"ship"}}
	n.srv = &http.Server{
		Addr: fmt.Sprintf("127.0.0.1:%d", n.port),
		Handler: http.HandlerFunc(func(w http.ResponseWriter, r *http.Request) {
			c, err := up.Upgrade(w, r, nil)
			if err != nil {
				return
			}
			n.mu.Lock()
			n.conns++
			n.mu.Unlock()
			defer c.Close()
			_ = c.SetReadDeadline(time.Now().Add(600 * time.Millisecond))
			for {
				_, msg, err := c.ReadMessage()
				if err != nil {
					return
				}
				if len(msg) >= 1 {
					n.mu.Lock()
					n.gotInit = true
					n.mu.Unlock()
				}
			}
		}),
		TLSConfig: &tls.Config{Certificates: []tls.Certificate{mc.tls}, ClientAuth: tls.RequestClientCert, CipherSuites: cert.CipherSuites, MinVersion: tls.VersionTLS12},
	}
	ln, err := net.Listen("tcp", n.srv.Addr)
	if err != nil {
		panic(err)
	}
	go func() { _ = n.srv.ServeTLS(ln, "", "") }()
	return n
}

func runOutbound(id int, rnd *rand.Rand, h *hub.Hub, fm *fakeMdns, victim *madeCert) tlsTrial {
	kinds := []string{"honest", "honest", "other", "copied", "noext", "short", "other-after-honest"}
	kind := kinds[rnd.Intn(len(kinds))]
	var mc *madeCert
	var err error
	dialled := ""
	switch kind {
	case "honest":
		mc, err = makeCert(certSpec{useKey: true}, "node")
		if err == nil {
			dialled = hex.EncodeToString(mc.ext)
		}
	case "other", "other-after-honest": // honest certificate, but the hub dials a different SKI
		mc, err = makeCert(certSpec{useKey: true}, "node")
		b := make([]byte, 20)
		rnd.Read(b)
		dialled = hex.EncodeToString(b)
	case "copied": // the server claims the dialled identity with a key of its own
		b := make([]byte, 20)
		rnd.Read(b)
		mc, err = makeCert(certSpec{ski: b}, "node")
		dialled = hex.EncodeToString(b)
	case "noext":
		mc, err = makeCert(certSpec{ski: nil}, "node")
		b := make([]byte, 20)
		rnd.Read(b)
		dialled = hex.EncodeToString(b)
	case "short":
		b := make([]byte, 19)
		rnd.Read(b)
		mc, err = makeCert(certSpec{ski: b}, "node")
		dialled = hex.EncodeToString(b) + "00"
	}
	if err != nil {
		return tlsTrial{"bad-cert " + err.Error(), "skip"}
	}
	node := startFakeNode(mc)
	defer node.srv.Close()
	if kind == "other-after-honest" {
		// the hub first connects to this node under the node's own SKI (it may keep a TLS session for that host), then it
		// is told that another SKI it trusts lives at the same address
		own := hex.EncodeToString(mc.ext)
		h.RegisterRemoteSKI(own)
		fm.publish(&api.MdnsEntry{Name: "node", Ski: own, Identifier: "node", Path: "/ship/", Register: false, Host: "127.0.0.1", Port: node.port, Addresses: []net.IP{net.ParseIP("127.0.0.1")}})
		for i := 0; i < 150; i++ {
			node.mu.Lock()
			g := node.gotInit
			node.mu.Unlock()
			if g {
				break
			}
			time.Sleep(10 * time.Millisecond)
		}
		fm.withdraw(own)
		h.UnregisterRemoteSKI(own)
		time.Sleep(700 * time.Millisecond) // the node ends the first connection
		node.mu.Lock()
		node.gotInit, node.conns = false, 0
		node.mu.Unlock()
	}
	h.RegisterRemoteSKI(dialled)
	fm.publish(&api.MdnsEntry{Name: "node", Ski: dialled, Identifier: "node", Path: "/ship/", Register: false, Host: "127.0.0.1", Port: node.port, Addresses: []net.IP{net.ParseIP("127.0.0.1")}})
	deadline := time.Now().Add(1500 * time.Millisecond)
	for time.Now().Before(deadline) {
		node.mu.Lock()
		c, g := node.conns, node.gotInit
		node.mu.Unlock()
		if g {
			break
		}
		if c > 0 {
			// refused peers are redialled at once (no back-off for a queued SKI): one look is enough
			time.Sleep(250 * time.Millisecond)
			break
		}
		time.Sleep(10 * time.Millisecond)
	}
	time.Sleep(150 * time.Millisecond)
	node.mu.Lock()
	conns, got := node.conns, node.gotInit
	node.mu.Unlock()
	fm.withdraw(dialled)
	h.UnregisterRemoteSKI(dialled)
	in := fmt.Sprintf("out id=%d kind=%s dialled=%s cert=%s:%s", id, kind, dialled, hexOrNone(mc.ext), hex.EncodeToString(mc.keyHash))
	out := fmt.Sprintf("closed conns=%d", conns)
	if got {
		out = "ship-sent"
	}
	return tlsTrial{in, out}
}

func tlspeerMain(args []string) int {
	fs := flag.NewFlagSet("tlspeer", flag.ExitOnError)
	seed := fs.Int64("seed", 1, "PRNG seed")
	nIn := fs.Int("inbound", 120, "inbound attempts")
	nOut := fs.Int("outbound", 30, "outbound attempts")
	outIn := fs.String("in", "tls_in.txt", "attempt descriptions (model input)")
	outImpl := fs.String("impl", "tls_impl.txt", "implementation outcomes")
	_ = fs.Parse(args)
	rnd := rand.New(rand.NewSource(*seed))

	hubCert, err := cert.CreateCertificate("unit", "verif", "DE", "hub")
	if err != nil {
		fmt.Fprintln(os.Stderr, err)
		return 1
	}
	victim, _ := makeCert(certSpec{useKey: true}, "victim")
	reader := &recReader{allowWait: true}
	fm := newFakeMdns()
	port := freePort()
	h := hub.NewHub(reader, fm, port, hubCert, api.NewServiceDetails("00112233445566778899aabbccddeeff00112233"))
	h.Start()
	time.Sleep(200 * time.Millisecond)

	var trials []tlsTrial
	// generator certificates must always pass (C02, last sentence)
	for i := 0; i < 5; i++ {
		gc, err := cert.CreateCertificate(strings.Repeat("ü", i), fmt.Sprintf("org%d", i), "DE", fmt.Sprintf("cn-%d;=", i))
		if err != nil {
			trials = append(trials, tlsTrial{"gen", "generator-error " + err.Error()})
			continue
		}
		leaf, _ := parseLeaf(gc)
		ski, serr := cert.SkiFromCertificate(leaf)
		ok := serr == nil && len(ski) == 40 && ski == strings.ToLower(ski) && ski == hex.EncodeToString(leaf.SubjectKeyId)
		trials = append(trials, tlsTrial{fmt.Sprintf("gen id=%d", i), fmt.Sprintf("gen ok=%s ski=%s", b01(ok), ski)})
	}
	for i := 0; i < *nIn; i++ {
		trials = append(trials, runInbound(i, rnd, port, reader, victim))
	}
	for i := 0; i < *nOut; i++ {
		trials = append(trials, runOutbound(i, rnd, h, fm, victim))
	}
	h.Shutdown()

	fi, _ := os.Create(*outIn)
	fo, _ := os.Create(*outImpl)
	bi, bo := bufio.NewWriter(fi), bufio.NewWriter(fo)
	for _, t := range trials {
		fmt.Fprintln(bi, t.in)
		fmt.Fprintln(bo, t.impl)
	}
	bi.Flush()
	bo.Flush()
	fi.Close()
	fo.Close()
	return 0
}
