//go:build verif

package main

// Engine userrace (C01, C04, C11 under concurrency): the theorems about one connection apply its events one at a time.
// The code does not: the application's calls (approve, abort, close) and the data connection's error report come from
// other goroutines than the one that handles a message. This engine lets such a call run while a message handler is
// inside a transport write (the write blocks on a gate), releases the write, lets a cooperative peer carry the
// handshake on, and judges the linearised sequence of observations with the parts of the properties that do not
// depend on the order of concurrent steps:
//   - once an outcome (aborted, rejected, error) or the end (close, closed callback) has been observed, no progress
//     state is reported;
//   - nothing past the hello phase without trust having been granted;
//   - the end is reported at most once; when everything has settled no timer is armed on an ended connection.

import (
	"flag"
	"fmt"
	"math/rand"
	"os"
	"strings"
	"sync"
	"time"

	"github.com/enbility/ship-go/ship"
)

type raceResult struct {
	line string
	bad  []string
}

func isEndState(n int) bool { return n == 15 || n == 16 || n == 17 || n == 39 }

func runUserRace(id int, seed int64) *raceResult {
	g := &gen{rnd: rand.New(rand.NewSource(seed)), ids: []string{"RemoteShipID"}}
	res := &raceResult{}
	role, rs := ship.ShipRoleServer, "s"
	if g.pick(3) == 0 {
		role, rs = ship.ShipRoleClient, "c"
	}
	e := env{paired: g.pick(2) == 0, auto: g.pick(5) == 0, allow: g.pick(2) == 0}
	r := &rec{}
	w := &mockWriter{r: r, failAt: -1, reason: "ur"}
	p := &mockProvider{r: r}
	p.set(e)
	conn := ship.NewConnectionHandler(p, w, role, "LocalShipID", "ski-remote", "")
	var all []string
	flush := func(tag string) {
		if tag != "" {
			all = append(all, tag)
		}
		all = append(all, r.take()...)
	}
	state := func() uint {
		st, _, _, _, _ := conn.VerifSnapshot()
		return uint(st)
	}
	call := func(f func(), d time.Duration) bool {
		done := make(chan struct{})
		go func() {
			defer close(done)
			defer func() {
				if x := recover(); x != nil {
					r.add(fmt.Sprintf("PANIC:%v", x))
				}
			}()
			f()
		}()
		select {
		case <-done:
			return true
		case <-time.After(d):
			return false
		}
	}
	w.beginEvent(-1)
	call(func() { conn.Run() }, 2*time.Second)
	flush("EV:run")
	raceAt := g.pick(5)
	userOp := []string{"abort", "abort", "approve", "close0", "close1", "connerr"}[g.pick(6)]
	raced := false
	for step := 0; step < 10; step++ {
		st := state()
		if isEndState(int(st)) || w.isClosed() {
			break
		}
		msg := g.inPhase(st)
		if st == 38 {
			break
		}
		if step == raceAt && !raced {
			raced = true
			gate, hit := make(chan struct{}), make(chan struct{})
			var once sync.Once
			w.mu.Lock()
			w.blockHook = func() {
				first := false
				once.Do(func() { first = true })
				if first {
					close(hit)
					<-gate
				}
			}
			w.mu.Unlock()
			handlerDone := make(chan struct{})
			go func() {
				defer close(handlerDone)
				defer func() {
					if x := recover(); x != nil {
						r.add(fmt.Sprintf("PANIC:%v", x))
					}
				}()
				conn.HandleIncomingWebsocketMessage(msg)
			}()
			select {
			case <-hit:
				flush(fmt.Sprintf("EV:msg@%d(blocked-in-write)", st))
				// the other goroutine
				ok := call(func() {
					switch userOp {
					case "abort":
						conn.AbortPendingHandshake()
					case "approve":
						conn.ApprovePendingHandshake()
					case "close0":
						conn.CloseConnection(false, 0, "")
					case "close1":
						conn.CloseConnection(true, 0, "ur")
					case "connerr":
						w.setClosed()
						conn.ReportConnectionError(fmt.Errorf("transport down"))
					}
				}, 300*time.Millisecond)
				flush("EV:user:" + userOp + map[bool]string{true: "", false: "(still-running)"}[ok])
				close(gate)
			case <-handlerDone:
				// the handler wrote nothing: no race in this scenario
				flush(fmt.Sprintf("EV:msg@%d", st))
				once.Do(func() {})
				close(gate)
			case <-time.After(2 * time.Second):
				res.bad = append(res.bad, "C08 a message handler neither wrote nor returned within 2 s")
				close(gate)
			}
			w.mu.Lock()
			w.blockHook = nil
			w.mu.Unlock()
			select {
			case <-handlerDone:
			case <-time.After(3 * time.Second):
				res.bad = append(res.bad, fmt.Sprintf("C08 the message handler did not return within 3 s after its write was released (user call %s)", userOp))
				res.line = strings.Join(all, " ")
				return res
			}
			time.Sleep(20 * time.Millisecond)
			flush("EV:released")
			continue
		}
		if !call(func() { conn.HandleIncomingWebsocketMessage(msg) }, 3*time.Second) {
			res.bad = append(res.bad, "C08 a message handler did not return within 3 s")
			break
		}
		flush(fmt.Sprintf("EV:msg@%d", st))
	}
	time.Sleep(50 * time.Millisecond)
	flush("EV:settle")
	// ---- verdicts on the linearised observations
	granted := role == ship.ShipRoleClient
	ended := false
	endedBy := ""
	cbs := 0
	denied := false
	for _, o := range all {
		switch {
		case o == "Qp1" || o == "Qa1":
			granted = true
		case strings.HasPrefix(o, "EV:user:approve"):
			granted = true
		case strings.HasPrefix(o, "PANIC"):
			res.bad = append(res.bad, "C08 "+o)
		case strings.HasPrefix(o, "CB:"):
			cbs++
			ended, endedBy = true, o
		case o == "SETUP":
			if denied {
				res.bad = append(res.bad, "C01 the remote device was set up after the local side had aborted the handshake (the abort ran while a message handler was inside a transport write)")
			}
		case strings.HasPrefix(o, "WSC:"):
			ended, endedBy = true, o
		case len(o) > 1 && o[0] == 'S' && o[1] >= '0' && o[1] <= '9':
			n := 0
			fmt.Sscanf(strings.TrimSuffix(o[1:], "e"), "%d", &n)
			post := n == 13 || (n >= 18 && n <= 38)
			if post && !granted {
				res.bad = append(res.bad, fmt.Sprintf("C01 state %d reported although trust was never granted (user call %s during a handler's write)", n, userOp))
			}
			if ended && !isEndState(n) && n != 14 {
				res.bad = append(res.bad, fmt.Sprintf("C04 progress state %d reported after the connection had ended (%s) - user call %s ran while a message handler was inside a transport write", n, endedBy, userOp))
			}
			if n == 38 && denied {
				res.bad = append(res.bad, "C01 the handshake completed after the local side had aborted it (the abort ran while a message handler was inside a transport write)")
			}
			if n == 15 {
				denied = true
			}
			if isEndState(n) {
				ended, endedBy = true, o
			}
		}
	}
	if cbs > 1 {
		res.bad = append(res.bad, fmt.Sprintf("C11 the end of the connection was reported %d times", cbs))
	}
	if _, running, _, _, _ := conn.VerifSnapshot(); running && ended && w.isClosed() {
		res.bad = append(res.bad, "C04 a handshake timer is armed on a connection that has ended and is closed")
	}
	res.line = fmt.Sprintf("role=%s env=%s%s%s race=%s@%d raced=%s | %s", rs, b01(e.paired), b01(e.auto), b01(e.allow), userOp, raceAt, b01(raced), strings.Join(all, " "))
	conn.CloseConnection(false, 0, "")
	return res
}

func userraceMain(args []string) int {
	fs := flag.NewFlagSet("userrace", flag.ExitOnError)
	seed := fs.Int64("seed", 1, "PRNG seed")
	n := fs.Int("n", 2000, "scenarios")
	out := fs.String("out", "userrace_out.txt", "result lines")
	_ = fs.Parse(args)
	res := make([]*raceResult, *n)
	var wg sync.WaitGroup
	sem := make(chan struct{}, 32)
	for i := 0; i < *n; i++ {
		wg.Add(1)
		sem <- struct{}{}
		go func(i int) {
			defer wg.Done()
			defer func() { <-sem }()
			res[i] = runUserRace(i, *seed*2654435761+int64(i))
		}(i)
	}
	wg.Wait()
	f, _ := os.Create(*out)
	defer f.Close()
	for i, r := range res {
		fmt.Fprintf(f, "S %d %s\n", i, r.line)
		for _, b := range r.bad {
			fmt.Fprintf(f, "BAD %d %s\n", i, b)
		}
	}
	return 0
}
