//go:build verif

package main

// Engine userrace (C01, C04, C11 under concurrency): the theorems about one connection apply its events one at a time.
// The code does not: the application's calls (approve, abort, close) and the data connection's error report come from
// other goroutines than the one that handles a message. This engine lets such a call run while a message handler is
// inside a transport write (the write blocks on a gate), releases the write, lets a cooperative peer carry the
// handshake on, and judges the linearised sequence of observations with the parts of the properties that do not
// depend on the order of concurrent steps:
//   - once an outcome (aborted, rejected, error) or the end (close, closed callback) has been observed, no progress
//     state is reported;
//   - nothing past the hello phase without trust having been granted;
//   - the end is reported at most once; when everything has settled no timer is armed on an ended connection.

import (
	"flag"
	"fmt"
	"math/rand"
	"os"
	"strings"
	"sync"
	"sync/atomic"
	"time"

	"github.com/enbility/ship-go/ship"
)

type raceResult struct {
	line string
	bad  []string
	obs  []string // what the serial scheduler shows beyond the properties' quantifier (sequences of events): reported, not judged
}

func isEndState(n int) bool { return n == 15 || n == 16 || n == 17 || n == 39 }

func runUserRace(id int, seed int64) *raceResult {
	g := &gen{rnd: rand.New(rand.NewSource(seed)), ids: []string{"RemoteShipID"}}
	res := &raceResult{}
	role, rs := ship.ShipRoleServer, "s"
	if g.pick(3) == 0 {
		role, rs = ship.ShipRoleClient, "c"
	}
	e := env{paired: g.pick(2) == 0, auto: g.pick(5) == 0, allow: g.pick(2) == 0}
	r := &rec{}
	w := &mockWriter{r: r, failAt: -1, reason: "ur"}
	p := &mockProvider{r: r}
	p.set(e)
	conn := ship.NewConnectionHandler(p, w, role, "LocalShipID", "ski-remote", "")
	var all []string
	flush := func(tag string) {
		if tag != "" {
			all = append(all, tag)
		}
		all = append(all, r.take()...)
	}
	state := func() uint {
		st, _, _, _, _ := conn.VerifSnapshot()
		return uint(st)
	}
	call := func(f func(), d time.Duration) bool {
		done := make(chan struct{})
		go func() {
			defer close(done)
			defer func() {
				if x := recover(); x != nil {
					r.add(fmt.Sprintf("PANIC:%v", x))
				}
			}()
			f()
		}()
		select {
		case <-done:
			return true
		case <-time.After(d):
			return false
		}
	}
	w.beginEvent(-1)
	call(func() { conn.Run() }, 2*time.Second)
	flush("EV:run")
	raceAt := g.pick(5)
	userOp := []string{"abort", "abort", "approve", "close0", "close1", "connerr"}[g.pick(6)]
	raced := false
	for step := 0; step < 10; step++ {
		st := state()
		if isEndState(int(st)) || w.isClosed() {
			break
		}
		msg := g.inPhase(st)
		if st == 38 {
			break
		}
		if step == raceAt && !raced {
			raced = true
			gate, hit := make(chan struct{}), make(chan struct{})
			var once sync.Once
			var cnt int32
			skip := int32([]int{0, 0, 1, 2}[g.pick(4)]) // which write of the handler is held: a handler may send more than one message
			w.mu.Lock()
			w.blockHook = func() {
				if atomic.AddInt32(&cnt, 1) <= skip {
					return
				}
				first := false
				once.Do(func() { first = true })
				if first {
					close(hit)
					<-gate
				}
			}
			w.mu.Unlock()
			handlerDone := make(chan struct{})
			go func() {
				defer close(handlerDone)
				defer func() {
					if x := recover(); x != nil {
						r.add(fmt.Sprintf("PANIC:%v", x))
					}
				}()
				conn.HandleIncomingWebsocketMessage(msg)
			}()
			select {
			case <-hit:
				flush(fmt.Sprintf("EV:msg@%d(blocked-in-write)", st))
				all = append(all, fmt.Sprintf("PARK:%d", state()))
				// the other goroutine
				ok := call(func() {
					switch userOp {
					case "abort":
						conn.AbortPendingHandshake()
					case "approve":
						conn.ApprovePendingHandshake()
					case "close0":
						conn.CloseConnection(false, 0, "")
					case "close1":
						conn.CloseConnection(true, 0, "ur")
					case "connerr":
						w.setClosed()
						conn.ReportConnectionError(fmt.Errorf("transport down"))
					}
				}, 300*time.Millisecond)
				flush("EV:user:" + userOp + map[bool]string{true: "", false: "(still-running)"}[ok])
				close(gate)
			case <-handlerDone:
				// the handler wrote nothing: no race in this scenario
				flush(fmt.Sprintf("EV:msg@%d", st))
				once.Do(func() {})
				close(gate)
			case <-time.After(2 * time.Second):
				res.bad = append(res.bad, "C08 a message handler neither wrote nor returned within 2 s")
				close(gate)
			}
			w.mu.Lock()
			w.blockHook = nil
			w.mu.Unlock()
			select {
			case <-handlerDone:
			case <-time.After(3 * time.Second):
				res.bad = append(res.bad, fmt.Sprintf("C08 the message handler did not return within 3 s after its write was released (user call %s)", userOp))
				res.line = strings.Join(all, " ")
				return res
			}
			time.Sleep(20 * time.Millisecond)
			flush("EV:released")
			continue
		}
		if !call(func() { conn.HandleIncomingWebsocketMessage(msg) }, 3*time.Second) {
			res.bad = append(res.bad, "C08 a message handler did not return within 3 s")
			break
		}
		flush(fmt.Sprintf("EV:msg@%d", st))
	}
	time.Sleep(50 * time.Millisecond)
	flush("EV:settle")
	// ---- verdicts on the linearised observations
	granted := role == ship.ShipRoleClient
	ended := false
	endedBy := ""
	cbs := 0
	denied := false
	for _, o := range all {
		switch {
		case o == "Qp1" || o == "Qa1":
			granted = true
		case strings.HasPrefix(o, "EV:user:approve"):
			granted = true
		case strings.HasPrefix(o, "PANIC"):
			res.bad = append(res.bad, "C08 "+o)
		case strings.HasPrefix(o, "CB:"):
			cbs++
			ended, endedBy = true, o
		case o == "SETUP":
			if denied {
				res.bad = append(res.bad, "C01 the remote device was set up after the local side had aborted the handshake (the abort ran while a message handler was inside a transport write)")
			}
		case strings.HasPrefix(o, "WSC:"):
			ended, endedBy = true, o
		case len(o) > 1 && o[0] == 'S' && o[1] >= '0' && o[1] <= '9':
			n := 0
			fmt.Sscanf(strings.TrimSuffix(o[1:], "e"), "%d", &n)
			post := n == 13 || (n >= 18 && n <= 38)
			if post && !granted {
				res.bad = append(res.bad, fmt.Sprintf("C01 state %d reported although trust was never granted (user call %s during a handler's write)", n, userOp))
			}
			if ended && !isEndState(n) && n != 14 {
				res.bad = append(res.bad, fmt.Sprintf("C04 progress state %d reported after the connection had ended (%s) - user call %s ran while a message handler was inside a transport write", n, endedBy, userOp))
			}
			if n == 38 && denied {
				res.bad = append(res.bad, "C01 the handshake completed after the local side had aborted it (the abort ran while a message handler was inside a transport write)")
			}
			if n == 15 {
				denied = true
			}
			if isEndState(n) {
				ended, endedBy = true, o
			}
		}
	}
	if cbs > 1 {
		res.bad = append(res.bad, fmt.Sprintf("C11 the end of the connection was reported %d times", cbs))
	}
	if _, running, _, _, _ := conn.VerifSnapshot(); running && ended && w.isClosed() {
		res.bad = append(res.bad, "C04 a handshake timer is armed on a connection that has ended and is closed")
	}
	res.line = fmt.Sprintf("role=%s env=%s%s%s race=%s@%d raced=%s | %s", rs, b01(e.paired), b01(e.auto), b01(e.allow), userOp, raceAt, b01(raced), strings.Join(all, " "))
	conn.CloseConnection(false, 0, "")
	return res
}

func userraceMain(args []string) int {
	fs := flag.NewFlagSet("userrace", flag.ExitOnError)
	seed := fs.Int64("seed", 1, "PRNG seed")
	n := fs.Int("n", 2000, "scenarios")
	out := fs.String("out", "userrace_out.txt", "result lines")
	_ = fs.Parse(args)
	res := make([]*raceResult, *n)
	var wg sync.WaitGroup
	sem := make(chan struct{}, 32)
	for i := 0; i < *n; i++ {
		wg.Add(1)
		sem <- struct{}{}
		go func(i int) {
			defer wg.Done()
			defer func() { <-sem }()
			if i%2 == 1 {
				res[i] = runUserSched(i, *seed*2654435761+int64(i))
			} else {
				res[i] = runUserRace(i, *seed*2654435761+int64(i))
			}
		}(i)
	}
	wg.Wait()
	f, _ := os.Create(*out)
	defer f.Close()
	for i, r := range res {
		fmt.Fprintf(f, "S %d %s\n", i, r.line)
		for _, b := range r.bad {
			fmt.Fprintf(f, "BAD %d %s\n", i, b)
		}
		for _, b := range r.obs {
			fmt.Fprintf(f, "OBS %d %s\n", i, b)
		}
	}
	return 0
}

// ---------------------------------------------------------------- serial scheduler
//
// The second kind of scenario runs two or three activities of one connection (the handler of the next peer message, a
// user call, the expiry of the armed timer) under a scheduler of the harness: every transport write and every state
// report is a scheduling point where the running goroutine parks; exactly one goroutine runs at a time and the
// harness draws which parked one continues. The recorded order of observations then is the order in which things
// happened. Judged: C01 (nothing past hello without trust, no completion or setup after a local abort), C08 (every
// activity reaches a scheduling point or returns, no panic), C11 (the end reported once). The C04 conditions (no progress
// state after the end, the phase never goes back) are evaluated too but only reported as observations: C04 quantifies
// over sequences of events, and the pinned code does report progress states from a handler that was under way when
// another activity ended the connection.

type usGate struct{ ch chan struct{} }

type usSched struct {
	mu     sync.Mutex
	active bool
	parked chan *usGate
}

func (s *usSched) point() {
	s.mu.Lock()
	a := s.active
	s.mu.Unlock()
	if !a {
		return
	}
	g := &usGate{ch: make(chan struct{})}
	s.parked <- g
	<-g.ch
}

func (s *usSched) set(v bool) {
	s.mu.Lock()
	s.active = v
	s.mu.Unlock()
}

type usTask struct {
	name    string
	f       func()
	started bool
	done    chan struct{}
	gate    *usGate
	over    bool
}

func phaseRank(n int) int {
	switch {
	case n <= 5:
		return 0
	case n <= 12:
		return 1
	case n == 13:
		return 2
	case n >= 18 && n <= 25:
		return 3
	case n >= 26 && n <= 35:
		return 4
	case n == 36:
		return 5
	case n == 37:
		return 6
	case n == 38:
		return 7
	}
	return -1
}

func runUserSched(id int, seed int64) *raceResult {
	g := &gen{rnd: rand.New(rand.NewSource(seed)), ids: []string{"RemoteShipID"}}
	res := &raceResult{}
	role, rs := ship.ShipRoleServer, "s"
	if g.pick(3) == 0 {
		role, rs = ship.ShipRoleClient, "c"
	}
	e := env{paired: g.pick(3) == 0, auto: g.pick(6) == 0, allow: g.pick(4) != 0}
	r := &rec{}
	w := &mockWriter{r: r, failAt: -1, reason: "us"}
	p := &mockProvider{r: r}
	p.set(e)
	sc := &usSched{parked: make(chan *usGate, 64)}
	w.blockHook = sc.point
	p.hook = sc.point
	conn := ship.NewConnectionHandler(p, w, role, "LocalShipID", "ski-remote", "")
	var all []string
	flush := func(tag string) {
		if tag != "" {
			all = append(all, tag)
		}
		all = append(all, r.take()...)
	}
	state := func() uint {
		st, _, _, _, _ := conn.VerifSnapshot()
		return uint(st)
	}
	guard := func(f func()) func() {
		return func() {
			defer func() {
				if x := recover(); x != nil {
					r.add(fmt.Sprintf("PANIC:%v", x))
				}
			}()
			f()
		}
	}
	seq := func(f func()) bool {
		done := make(chan struct{})
		go func() { defer close(done); guard(f)() }()
		select {
		case <-done:
			return true
		case <-time.After(3 * time.Second):
			return false
		}
	}
	w.beginEvent(-1)
	seq(func() { conn.Run() })
	flush("EV:run")
	raceAt := g.pick(5)
	userOps := []string{"abort", "approve", "close0", "close1", "connerr", "abort", "approve"}
	desc := ""
	raced := false
	hung := false
	for step := 0; step < 10 && !hung; step++ {
		st := state()
		if isEndState(int(st)) || w.isClosed() || st == 38 {
			break
		}
		msg := g.inPhase(st)
		if step != raceAt || raced {
			if !seq(func() { conn.HandleIncomingWebsocketMessage(msg) }) {
				res.bad = append(res.bad, "C08 a message handler did not return within 3 s")
				hung = true
			}
			flush(fmt.Sprintf("EV:msg@%d", st))
			continue
		}
		raced = true
		mk := func(op string) *usTask {
			t := &usTask{name: op, done: make(chan struct{})}
			switch op {
			case "msg":
				t.f = func() { conn.HandleIncomingWebsocketMessage(msg) }
			case "msg2":
				m2 := g.inPhase(st)
				t.f = func() { conn.HandleIncomingWebsocketMessage(m2) }
			case "abort":
				t.f = func() { conn.AbortPendingHandshake() }
			case "approve":
				t.f = func() { conn.ApprovePendingHandshake() }
			case "close0":
				t.f = func() { conn.CloseConnection(false, 0, "") }
			case "close1":
				t.f = func() { conn.CloseConnection(true, 0, "us") }
			case "connerr":
				t.f = func() { w.setClosed(); conn.ReportConnectionError(fmt.Errorf("transport down")) }
			case "timeout":
				t.f = func() { conn.VerifFireTimeout() }
			}
			return t
		}
		tasks := []*usTask{mk("msg"), mk(userOps[g.pick(len(userOps))])}
		switch g.pick(4) {
		case 0:
			tasks = append(tasks, mk("timeout"))
		case 1:
			tasks = append(tasks, mk(userOps[g.pick(len(userOps))]))
		}
		for _, t := range tasks {
			desc += t.name + "+"
		}
		sc.set(true)
		flush(fmt.Sprintf("EV:sched@%d[", st))
		for n := 0; n < 200 && !hung; n++ {
			var ready []*usTask
			for _, t := range tasks {
				if !t.over {
					ready = append(ready, t)
				}
			}
			if len(ready) == 0 {
				break
			}
			t := ready[g.pick(len(ready))]
			if !t.started {
				t.started = true
				go func(t *usTask) { defer close(t.done); guard(t.f)() }(t)
			} else {
				close(t.gate.ch)
				t.gate = nil
			}
			select {
			case <-t.done:
				t.over = true
				flush("EV:" + t.name + ":returns")
			case gt := <-sc.parked:
				t.gate = gt
				flush("EV:" + t.name + ":parks")
			case <-time.After(3 * time.Second):
				res.bad = append(res.bad, fmt.Sprintf("C08 activity %s neither reached a scheduling point nor returned within 3 s (activities %s)", t.name, desc))
				hung = true
			}
		}
		sc.set(false)
		// let whatever is still parked go (after a hang)
		for _, t := range tasks {
			if t.gate != nil {
				close(t.gate.ch)
				t.gate = nil
			}
		}
		flush("EV:]")
	}
	sc.set(false)
	time.Sleep(30 * time.Millisecond)
	flush("EV:settle")
	granted := role == ship.ShipRoleClient
	ended, denied := false, false
	endedBy := ""
	cbs, maxRank, maxAt := 0, 0, 0
	for _, o := range all {
		switch {
		case o == "Qp1" || o == "Qa1":
			granted = true
		case strings.HasPrefix(o, "EV:approve:"):
			granted = true
		case strings.HasPrefix(o, "PANIC"):
			res.bad = append(res.bad, "C08 "+o)
		case strings.HasPrefix(o, "CB:"):
			cbs++
			ended, endedBy = true, o
		case o == "SETUP":
			if denied {
				res.bad = append(res.bad, "C01 the remote device was set up after the local side had aborted the handshake (activities "+desc+")")
			}
		case strings.HasPrefix(o, "WSC:"):
			ended, endedBy = true, o
		case len(o) > 1 && o[0] == 'S' && o[1] >= '0' && o[1] <= '9':
			n := 0
			fmt.Sscanf(strings.TrimSuffix(o[1:], "e"), "%d", &n)
			if (n == 13 || (n >= 18 && n <= 38)) && !granted {
				res.bad = append(res.bad, fmt.Sprintf("C01 state %d reported although trust was never granted (activities %s)", n, desc))
			}
			if ended && !isEndState(n) && n != 14 {
				res.obs = append(res.obs, fmt.Sprintf("C04 progress state %d reported after the connection had ended (%s); concurrent activities %s", n, endedBy, desc))
			}
			if n == 38 && denied {
				res.bad = append(res.bad, "C01 the handshake completed after the local side had aborted it (activities "+desc+")")
			}
			if rk := phaseRank(n); rk >= 0 && !ended {
				if rk < maxRank {
					res.obs = append(res.obs, fmt.Sprintf("C04 state %d reported after state %d: the handshake went back a phase; concurrent activities %s", n, maxAt, desc))
				} else if rk > maxRank {
					maxRank, maxAt = rk, n
				}
			}
			if n == 15 {
				denied = true
			}
			if isEndState(n) {
				ended, endedBy = true, o
			}
		}
	}
	if cbs > 1 {
		res.bad = append(res.bad, fmt.Sprintf("C11 the end of the connection was reported %d times", cbs))
	}
	if _, running, _, _, _ := conn.VerifSnapshot(); running && ended && w.isClosed() {
		res.obs = append(res.obs, "C04 a handshake timer is armed on a connection that has ended and is closed (activities "+desc+")")
	}
	res.line = fmt.Sprintf("sched role=%s env=%s%s%s race=%s@%d raced=%s | %s", rs, b01(e.paired), b01(e.auto), b01(e.allow), desc, raceAt, b01(raced), strings.Join(all, " "))
	conn.CloseConnection(false, 0, "")
	return res
}
