//go:build verif

package main

// Engine regrace (C11): the end of a registered connection (HandleConnectionClosed) races with the registration
// of a newer connection to the same SKI - a peer that restarts and reconnects at once. Whatever the order, the
// newer connection's registry entry must survive: "the hub forgets exactly that connection and never drops the
// registry entry of a newer connection". Two variants: plain (both calls released together by a spin barrier)
// and slow-callback (the application takes its time inside RemoteSKIDisconnected while the newer connection is
// registered).

import (
	"flag"
	"fmt"
	"os"
	"runtime"
	"sync"
	"sync/atomic"
	"time"

	"github.com/enbility/ship-go/api"
	"github.com/enbility/ship-go/cert"
	"github.com/enbility/ship-go/hub"
)

type slowReader struct {
	recReader
	inCb    chan struct{} // signalled when RemoteSKIDisconnected was entered
	release chan struct{} // RemoteSKIDisconnected returns when this is closed
	slow    atomic.Bool
}

func (r *slowReader) RemoteSKIDisconnected(ski string) {
	r.recReader.RemoteSKIDisconnected(ski)
	if r.slow.Load() {
		select {
		case r.inCb <- struct{}{}:
		default:
		}
		<-r.release
	}
}

func regraceMain(args []string) int {
	fs := flag.NewFlagSet("regrace", flag.ExitOnError)
	n := fs.Int("n", 20000, "plain trials")
	ns := fs.Int("slow", 200, "slow-callback trials")
	out := fs.String("out", "regrace_out.txt", "result lines")
	_ = fs.Parse(args)
	f, _ := os.Create(*out)
	defer f.Close()
	ski := "aabbccddeeff00112233445566778899aabbccdd"
	local := api.NewServiceDetails("1111111111111111111111111111111111111111")
	c, err := cert.CreateCertificate("unit", "verif", "DE", "regrace")
	if err != nil {
		panic(err)
	}
	rd := &slowReader{inCb: make(chan struct{}, 1)}
	h := hub.NewHub(rd, newFakeMdns(), freePort(), c, local)
	log := &obsLog{}
	dropped, order := 0, [2]int{}
	for i := 0; i < *n; i++ {
		old := &mockConn{log: log, id: 2 * i, ski: ski, dh: &mockDH{id: 2 * i}}
		nw := &mockConn{log: log, id: 2*i + 1, ski: ski, dh: &mockDH{id: 2*i + 1}}
		h.VerifRegisterConnection(old)
		var wg sync.WaitGroup
		var goFlag atomic.Bool
		var t1, t2 int64
		wg.Add(2)
		go func() {
			defer wg.Done()
			for !goFlag.Load() {
			}
			h.HandleConnectionClosed(old, false)
			t1 = time.Now().UnixNano()
		}()
		go func() {
			defer wg.Done()
			for !goFlag.Load() {
			}
			for k := 0; k < i%64; k++ { // vary the relative start
				runtime.Gosched()
			}
			h.VerifRegisterConnection(nw)
			t2 = time.Now().UnixNano()
		}()
		goFlag.Store(true)
		wg.Wait()
		if t1 < t2 {
			order[0]++
		} else {
			order[1]++
		}
		got := h.VerifConnectionFor(ski)
		if got == nil || got.DataHandler() != nw.DataHandler() {
			dropped++
			if dropped <= 3 {
				fmt.Fprintf(f, "BAD plain trial=%d: connection %d ended while connection %d to the same SKI was being registered; afterwards the registry holds %v for the SKI (the newer connection's entry was dropped)\n", i, old.id, nw.id, got != nil)
			}
		}
		h.HandleConnectionClosed(nw, false)
		log.take()
		rd.recReader.mu.Lock()
		rd.recReader.events = nil
		rd.recReader.mu.Unlock()
	}
	// slow callback: the newer connection is registered while the application is inside RemoteSKIDisconnected
	droppedSlow := 0
	for i := 0; i < *ns; i++ {
		old := &mockConn{log: log, id: 1000000 + 2*i, ski: ski, dh: &mockDH{id: 1000000 + 2*i}}
		nw := &mockConn{log: log, id: 1000001 + 2*i, ski: ski, dh: &mockDH{id: 1000001 + 2*i}}
		h.VerifRegisterConnection(old)
		rd.release = make(chan struct{})
		rd.slow.Store(true)
		done := make(chan struct{})
		go func() { h.HandleConnectionClosed(old, false); close(done) }()
		select {
		case <-rd.inCb:
		case <-time.After(2 * time.Second):
		}
		rd.slow.Store(false)
		h.VerifRegisterConnection(nw)
		close(rd.release)
		select {
		case <-done:
		case <-time.After(5 * time.Second):
			fmt.Fprintf(f, "BAD slow trial=%d: HandleConnectionClosed did not return within 5 s\n", i)
		}
		got := h.VerifConnectionFor(ski)
		if got == nil || got.DataHandler() != nw.DataHandler() {
			droppedSlow++
			if droppedSlow <= 3 {
				fmt.Fprintf(f, "BAD slow trial=%d: connection %d was registered while the application handled the disconnect of connection %d; afterwards the registry holds %v for the SKI (the newer connection's entry was dropped)\n", i, nw.id, old.id, got != nil)
			}
		}
		h.HandleConnectionClosed(nw, false)
		log.take()
	}
	fmt.Fprintf(f, "SUMMARY plain=%d dropped=%d closed_first=%d registered_first=%d slow=%d dropped_slow=%d\n", *n, dropped, order[0], order[1], *ns, droppedSlow)
	return 0
}
