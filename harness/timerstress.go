//go:build verif

package main

// Engine timerstress (C14): arm / stop / re-arm sequences on real ShipConnections through the verif
// hooks. A connection is a client in CMI_STATE_CLIENT_WAIT, where a delivered timeout is visible as the
// error state. Timers are armed with a duration far longer than the gaps between operations, so every
// stop or replacement happens "well before expiry"; a delivery is legitimate only from the last armed,
// never stopped timer.

import (
	"flag"
	"fmt"
	"math/rand"
	"os"
	"strings"
	"sync"
	"sync/atomic"
	"time"

	"github.com/enbility/ship-go/ship"
)

type timerTrial struct {
	id        int
	ops       []string
	delivered int
	expected  int // deliveries allowed (0 or 1)
	ok        bool
	states    string
	// a short timer lived longer than half its duration before it was stopped or replaced (the machine
	// stalled): the stop was not "well before expiry", the trial says nothing about the property
	inconclusive bool
}

func runTimerTrial(id int, seed int64, durMs int) *timerTrial {
	rnd := rand.New(rand.NewSource(seed))
	r := &rec{}
	w := &mockWriter{r: r, failAt: -1}
	p := &mockProvider{r: r}
	conn := ship.NewConnectionHandler(p, w, ship.ShipRoleClient, "local", "ski", "")
	conn.Run() // state 2, wait-for-ready timer (10 s) armed
	conn.VerifStopTimer()
	r.take()
	tr := &timerTrial{id: id}
	if rnd.Intn(8) == 0 {
		return runTimerRace(tr, conn, r, rnd, durMs)
	}
	nops := 1 + rnd.Intn(5)
	armed := false
	long := false // the timer armed last is a long one: it must not deliver within the observation window
	var armedAt time.Time
	armedDur := 0
	// called after the operation that ended the current timer returned
	ended := func() {
		if armed && time.Since(armedAt) > time.Duration(armedDur)*time.Millisecond/2 {
			tr.inconclusive = true
		}
	}
	for i := 0; i < nops; i++ {
		switch rnd.Intn(5) {
		case 0, 1:
			d := durMs
			long = rnd.Intn(5) < 2
			if long {
				d = durMs * 200
			}
			t0 := time.Now()
			conn.VerifArmTimer(uint(rnd.Intn(3)), d)
			ended()
			armed, armedAt, armedDur = true, t0, d
			tr.ops = append(tr.ops, fmt.Sprintf("arm(%d)", d))
		case 2, 3:
			conn.VerifStopTimer()
			ended()
			armed = false
			tr.ops = append(tr.ops, "stop")
		default:
			d := time.Duration(rnd.Intn(1500)) * time.Microsecond
			time.Sleep(d)
			tr.ops = append(tr.ops, fmt.Sprintf("sleep(%s)", d))
		}
	}
	if armed && !long {
		tr.expected = 1
	}
	time.Sleep(time.Duration(durMs)*time.Millisecond*2 + 30*time.Millisecond)
	count := func(obs []string) int {
		n := 0
		for _, o := range obs {
			if strings.HasPrefix(o, "CB:") {
				n++
			}
		}
		return n
	}
	obs := r.take()
	if tr.expected == 1 && count(obs) == 0 {
		// a loaded machine may run the timer goroutine late: give the legitimate expiry time
		for i := 0; i < 400 && count(obs) == 0; i++ {
			time.Sleep(10 * time.Millisecond)
			obs = append(obs, r.take()...)
		}
		time.Sleep(5 * time.Millisecond)
		obs = append(obs, r.take()...)
	}
	if armed && long {
		// the long timer is the current one and has not expired: stop it, nothing may be delivered afterwards either
		conn.VerifStopTimer()
		ended()
		tr.ops = append(tr.ops, "stop")
		time.Sleep(time.Duration(durMs)*time.Millisecond + 10*time.Millisecond)
		obs = append(obs, r.take()...)
	}
	tr.delivered = count(obs)
	tr.states = strings.Join(obs, " ")
	tr.ok = tr.delivered == tr.expected
	_, running, _, _, _ := conn.VerifSnapshot()
	if running {
		// after everything settled no timer may be flagged as running
		tr.ok = false
		tr.states += " timer-flag-still-set"
	}
	return tr
}

// two goroutines arm a timer at the same moment (an approval racing an incoming message), the survivor is stopped,
// a long timer is armed: whichever of the racing timers was replaced must never deliver
func runTimerRace(tr *timerTrial, conn *ship.ShipConnection, r *rec, rnd *rand.Rand, durMs int) *timerTrial {
	var wg sync.WaitGroup
	var goFlag atomic.Bool
	t0 := time.Now()
	for _, d := range []int{durMs, durMs * 200} {
		wg.Add(1)
		go func(d int) {
			defer wg.Done()
			for !goFlag.Load() {
			}
			conn.VerifArmTimer(0, d)
		}(d)
	}
	goFlag.Store(true)
	wg.Wait()
	conn.VerifStopTimer()
	conn.VerifArmTimer(0, durMs*200)
	if time.Since(t0) > time.Duration(durMs)*time.Millisecond/2 {
		tr.inconclusive = true
	}
	tr.ops = []string{fmt.Sprintf("arm(%d)||arm(%d)", durMs, durMs*200), "stop", fmt.Sprintf("arm(%d)", durMs*200)}
	time.Sleep(time.Duration(durMs)*time.Millisecond*2 + 30*time.Millisecond)
	conn.VerifStopTimer()
	tr.ops = append(tr.ops, "stop")
	time.Sleep(time.Duration(durMs)*time.Millisecond + 10*time.Millisecond)
	obs := r.take()
	for _, o := range obs {
		if strings.HasPrefix(o, "CB:") {
			tr.delivered++
		}
	}
	tr.states = strings.Join(obs, " ")
	tr.ok = tr.delivered == 0
	if _, running, _, _, _ := conn.VerifSnapshot(); running {
		tr.ok = false
		tr.states += " timer-flag-still-set"
	}
	return tr
}

func timerstressMain(args []string) int {
	fs := flag.NewFlagSet("timerstress", flag.ExitOnError)
	seed := fs.Int64("seed", 1, "PRNG seed")
	n := fs.Int("n", 2000, "number of trials")
	workers := fs.Int("workers", 256, "concurrent connections")
	dur := fs.Int("dur", 40, "timer duration in ms")
	out := fs.String("out", "timer_out.txt", "result lines")
	_ = fs.Parse(args)
	res := make([]*timerTrial, *n)
	var wg sync.WaitGroup
	sem := make(chan struct{}, *workers)
	for i := 0; i < *n; i++ {
		wg.Add(1)
		sem <- struct{}{}
		go func(i int) {
			defer wg.Done()
			defer func() { <-sem }()
			res[i] = runTimerTrial(i, *seed*7919+int64(i), *dur)
		}(i)
	}
	wg.Wait()
	f, _ := os.Create(*out)
	defer f.Close()
	for _, t := range res {
		v := "ok"
		if t.inconclusive {
			v = "SKIP"
		} else if !t.ok {
			v = "BAD"
		}
		fmt.Fprintf(f, "%s trial=%d ops=%s delivered=%d expected=%d obs=[%s]\n", v, t.id, strings.Join(t.ops, ";"), t.delivered, t.expected, t.states)
	}
	return 0
}
