//go:build verif

package main

// Engine racestress (C20): concurrent use of one ShipConnection the way the library itself uses it - the read pump
// delivering messages while the handshake timer goroutine fires and application goroutines query the state,
// approve, abort or close. Built with -race the Go race detector reports conflicting accesses; this engine only
// generates the traffic.

import (
	"flag"
	"fmt"
	"math/rand"
	"net"
	"strings"
	"sync"
	"time"

	"github.com/enbility/ship-go/mdns"
	"github.com/enbility/ship-go/ship"
)

func raceConnTrial(seed int64) {
	rnd := rand.New(rand.NewSource(seed))
	r := &rec{}
	w := &mockWriter{r: r, failAt: -1}
	p := &mockProvider{r: r}
	p.set(env{paired: rnd.Intn(2) == 0, auto: false, allow: true})
	role := ship.ShipRoleServer
	if rnd.Intn(3) == 0 {
		role = ship.ShipRoleClient
	}
	conn := ship.NewConnectionHandler(p, w, role, "LocalShipID", "ski-remote", "")
	conn.Run()
	conn.HandleIncomingWebsocketMessage([]byte{0, 0})
	var wg sync.WaitGroup
	stop := make(chan struct{})
	// the read pump: hello messages with waiting values, prolongation requests, the rest of a handshake
	wg.Add(1)
	go func() {
		defer wg.Done()
		g := &gen{rnd: rand.New(rand.NewSource(seed + 1)), ids: []string{"RemoteShipID"}}
		for i := 0; i < 40; i++ {
			select {
			case <-stop:
				return
			default:
			}
			st, _, _, _, _ := conn.VerifSnapshot()
			conn.HandleIncomingWebsocketMessage(g.inPhase(st))
			time.Sleep(time.Duration(rnd.Intn(300)) * time.Microsecond)
		}
	}()
	// the timer goroutine: short real timers
	wg.Add(1)
	go func() {
		defer wg.Done()
		rr := rand.New(rand.NewSource(seed + 2))
		for i := 0; i < 25; i++ {
			select {
			case <-stop:
				return
			default:
			}
			_, running, _, _, _ := conn.VerifSnapshot()
			if running {
				conn.VerifArmTimer(uint(rr.Intn(3)), 1)
			}
			time.Sleep(time.Duration(500+rr.Intn(1500)) * time.Microsecond)
		}
	}()
	// the application: state queries, approve / abort, close
	wg.Add(1)
	go func() {
		defer wg.Done()
		rr := rand.New(rand.NewSource(seed + 3))
		for i := 0; i < 30; i++ {
			_, _ = conn.ShipHandshakeState()
			switch rr.Intn(12) {
			case 0:
				conn.ApprovePendingHandshake()
			case 1:
				conn.AbortPendingHandshake()
			case 2:
				if i > 20 {
					conn.CloseConnection(rr.Intn(2) == 0, 0, "bye")
				}
			}
			time.Sleep(time.Duration(rr.Intn(400)) * time.Microsecond)
		}
	}()
	done := make(chan struct{})
	go func() { wg.Wait(); close(done) }()
	select {
	case <-done:
	case <-time.After(5 * time.Second):
		close(stop)
		fmt.Println("HANG: concurrent use of a connection did not finish within 5 s, seed", seed)
	}
	conn.CloseConnection(false, 0, "")
}

// a transport that is slow for prolongation requests: the timer goroutine's handler stays in its write for a moment
type slowWriter struct{ *mockWriter }

func (w *slowWriter) WriteMessageToWebsocketConnection(msg []byte) error {
	err := w.mockWriter.WriteMessageToWebsocketConnection(msg)
	if strings.Contains(string(msg), "prolongationRequest") {
		time.Sleep(800 * time.Microsecond)
	}
	return err
}

// a server waiting for the user's trust decision: the peer keeps sending hello updates with waiting values while
// the prolongation timers of the connection expire
func racePendingTrial(seed int64) {
	rnd := rand.New(rand.NewSource(seed))
	r := &rec{}
	w := &mockWriter{r: r, failAt: -1}
	p := &mockProvider{r: r}
	p.set(env{paired: false, auto: false, allow: true})
	conn := ship.NewConnectionHandler(p, &slowWriter{w}, ship.ShipRoleServer, "LocalShipID", "ski-remote", "")
	conn.Run()
	conn.HandleIncomingWebsocketMessage([]byte{0, 0})
	if st, _, _, _, _ := conn.VerifSnapshot(); st != 11 {
		return
	}
	// from now on the application does not allow waiting any longer: an expiring timer asks the peer for a prolongation
	p.set(env{paired: false, auto: false, allow: false})
	var wg sync.WaitGroup
	wg.Add(2)
	go func() {
		defer wg.Done()
		for i := 0; i < 60; i++ {
			if st, _, _, _, _ := conn.VerifSnapshot(); st != 11 {
				return
			}
			conn.HandleIncomingWebsocketMessage(helloMsg("pending", uptr(uint(40000+i)), nil))
			time.Sleep(time.Duration(rnd.Intn(200)) * time.Microsecond)
		}
	}()
	go func() {
		defer wg.Done()
		rr := rand.New(rand.NewSource(seed + 5))
		for i := 0; i < 60; i++ {
			if st, _, _, _, _ := conn.VerifSnapshot(); st != 11 {
				return
			}
			conn.VerifArmTimer(1, 0)
			time.Sleep(time.Duration(rr.Intn(300)) * time.Microsecond)
		}
	}()
	done := make(chan struct{})
	go func() { wg.Wait(); close(done) }()
	select {
	case <-done:
	case <-time.After(5 * time.Second):
		fmt.Println("HANG: pending trial did not finish within 5 s, seed", seed)
	}
	conn.CloseConnection(false, 0, "")
}

// the mDNS manager used the way hub, application and provider use it at the same time
func raceMdnsTrial(seed int64) {
	m := mdns.NewMDNS("ski0", "brand", "model", "type", "serial", nil, "id", "svc", 4711, nil, mdns.MdnsProviderSelectionGoZeroConfOnly)
	// the receiver of the reports treats what it gets as its own, as the hub does (it sorts an entry's addresses in place)
	m.VerifSetProvider(&fakeProvider{}, scribbleSink{})
	var wg sync.WaitGroup
	run := func(f func(r *rand.Rand, i int)) {
		wg.Add(1)
		go func() {
			defer wg.Done()
			r := rand.New(rand.NewSource(seed))
			for i := 0; i < 40; i++ {
				f(r, i)
				time.Sleep(time.Duration(r.Intn(100)) * time.Microsecond)
			}
		}()
	}
	run(func(r *rand.Rand, i int) { m.SetAutoAccept(i%2 == 0) })
	run(func(r *rand.Rand, i int) {
		if i%3 == 0 {
			m.UnannounceMdnsEntry()
		} else {
			_ = m.AnnounceMdnsEntry()
		}
	})
	run(func(r *rand.Rand, i int) { m.RequestMdnsEntries() })
	run(func(r *rand.Rand, i int) {
		ski := fmt.Sprintf("ski%d", 1+r.Intn(3))
		el := map[string]string{"txtvers": "1", "id": "id-" + ski, "path": "/ship/", "ski": ski, "register": "false"}
		// several addresses per service, announced one after the other (as Avahi does): entries are merged
		ip := net.ParseIP(fmt.Sprintf("192.168.1.%d", 7+r.Intn(6)))
		m.VerifResolve(el, "svc-"+ski, "host.local", []net.IP{ip}, 4711, r.Intn(8) == 0)
	})
	run(func(r *rand.Rand, i int) { _ = m.QRCodeText() })
	wg.Wait()
	m.Shutdown()
}

func racestressMain(args []string) int {
	fs := flag.NewFlagSet("racestress", flag.ExitOnError)
	seed := fs.Int64("seed", 1, "PRNG seed")
	n := fs.Int("n", 200, "connection trials")
	_ = fs.Parse(args)
	var wg sync.WaitGroup
	sem := make(chan struct{}, 16)
	for i := 0; i < *n; i++ {
		wg.Add(1)
		sem <- struct{}{}
		go func(i int) {
			defer wg.Done()
			defer func() { <-sem }()
			defer func() {
				if x := recover(); x != nil {
					fmt.Println("PANIC:", x)
				}
			}()
			if i%6 == 5 {
				raceMdnsTrial(*seed*31337 + int64(i)*7)
			} else if i%3 == 2 {
				racePendingTrial(*seed*31337 + int64(i)*7)
			} else {
				raceConnTrial(*seed*31337 + int64(i)*7)
			}
		}(i)
	}
	wg.Wait()
	return 0
}
