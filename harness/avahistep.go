//go:build verif

package main

// Engine avahistep (C19): the real AvahiProvider against a harness implementation of
// avahi.ServerInterface (injected through the verif hook) whose daemon can go away and come back.
// After every event the daemon-side facts (browser present, published TXT) are printed for comparison
// with the Lean model. A `tick` lets the provider's reconnect loop make its next one-second attempt.

import (
	"bufio"
	"errors"
	"flag"
	"fmt"
	"math/rand"
	"net"
	"os"
	"strings"
	"sync"
	"sync/atomic"
	"time"

	"github.com/enbility/go-avahi"
	"github.com/enbility/ship-go/mdns"
)

type fakeGroup struct {
	avahi.EntryGroupInterface
	srv     *fakeAvahi
	session int
	txt     string
}

func (g *fakeGroup) AddService(iface, protocol int32, flags uint32, name, serviceType, domain, host string, port uint16, txt [][]byte) error {
	g.srv.mu.Lock()
	defer g.srv.mu.Unlock()
	if !g.srv.up || g.session != g.srv.session {
		return errors.New("daemon not available")
	}
	parts := []string{}
	for _, t := range txt {
		parts = append(parts, string(t))
	}
	g.txt = strings.Join(parts, ",")
	return nil
}

func (g *fakeGroup) Commit() error {
	g.srv.mu.Lock()
	defer g.srv.mu.Unlock()
	if !g.srv.up || g.session != g.srv.session {
		return errors.New("daemon not available")
	}
	g.srv.published = g.txt
	g.srv.publishedBy = g
	return nil
}

type fakeBrowser struct {
	avahi.ServiceBrowserInterface
	session int
	stop    chan struct{}
	done    chan struct{}
}

type fakeAvahi struct {
	avahi.ServerInterface
	mu          sync.Mutex
	up          bool
	session     int // incremented with every successful Setup; daemon state belongs to a session
	live        bool
	cb          avahi.EventCB
	browser     *fakeBrowser
	published   string
	publishedBy *fakeGroup
	setups      int
	calls       int // daemon calls of any kind
	addChan     chan avahi.Service
	removeChan  chan avahi.Service
	stream      bool // a browser emits results continuously until it is freed (stress phase)
	inFlight    bool // ServiceBrowserFree delivers one result that was dispatched just before
	emitted     int
	failNext    string // "api" | "browser": the next such call fails although the daemon is there (once)
}

// the daemon forgets the browser (new session, shutdown, daemon gone): its dispatcher ends
func (s *fakeAvahi) dropBrowserLocked() {
	if b := s.browser; b != nil {
		select {
		case <-b.stop:
		default:
			close(b.stop)
		}
	}
	s.browser = nil
}

func fakeService(i int) avahi.Service {
	return avahi.Service{Interface: 2, Protocol: 0, Name: fmt.Sprintf("peer%d", i%4), Type: "_ship._tcp", Domain: "local"}
}

func (s *fakeAvahi) Setup(cb avahi.EventCB) error {
	s.mu.Lock()
	defer s.mu.Unlock()
	s.setups++
	s.calls++
	if !s.up {
		return errors.New("avahi daemon not running")
	}
	s.session++
	s.live = true
	s.cb = cb
	s.dropBrowserLocked()
	s.published = ""
	s.publishedBy = nil
	return nil
}
func (s *fakeAvahi) Start() {}
func (s *fakeAvahi) Shutdown() {
	s.mu.Lock()
	s.calls++
	s.live = false
	s.dropBrowserLocked()
	s.published = ""
	s.publishedBy = nil
	s.mu.Unlock()
}
func (s *fakeAvahi) GetAPIVersion() (int32, error) {
	s.mu.Lock()
	defer s.mu.Unlock()
	if s.failNext == "api" {
		s.failNext = ""
		return 0, errors.New("daemon call failed")
	}
	if !s.up || !s.live {
		return 0, errors.New("not connected")
	}
	return 515, nil
}
func (s *fakeAvahi) ServiceBrowserNew(addChan, removeChan chan avahi.Service, iface, protocol int32, serviceType string, domain string, flags uint32) (avahi.ServiceBrowserInterface, error) {
	s.mu.Lock()
	defer s.mu.Unlock()
	s.calls++
	if s.failNext == "browser" {
		s.failNext = ""
		return nil, errors.New("daemon call failed")
	}
	if !s.up || !s.live {
		return nil, errors.New("not connected")
	}
	b := &fakeBrowser{session: s.session, stop: make(chan struct{}), done: make(chan struct{})}
	s.browser = b
	s.addChan, s.removeChan = addChan, removeChan
	go func() {
		defer close(b.done)
		defer func() { _ = recover() }() // the provider closes its channels on shutdown
		if !s.stream {
			<-b.stop
			return
		}
		for i := 0; ; i++ {
			ch := addChan
			if i%3 == 2 {
				ch = removeChan
			}
			select {
			case ch <- fakeService(i):
				s.mu.Lock()
				s.emitted++
				s.mu.Unlock()
			case <-b.stop:
				return
			}
		}
	}()
	return b, nil
}
func (s *fakeAvahi) ServiceBrowserFree(r avahi.ServiceBrowserInterface) {
	s.mu.Lock()
	b, ok := r.(*fakeBrowser)
	if ok && s.browser == b {
		s.browser = nil
	}
	inFlight, ch := s.inFlight, s.addChan
	s.mu.Unlock()
	if ok {
		if inFlight && ch != nil {
			// a result that had been dispatched just before the browser got freed
			func() {
				defer func() { _ = recover() }()
				select {
				case ch <- fakeService(1):
				case <-time.After(3 * time.Second):
				}
			}()
		}
		select {
		case <-b.stop:
		default:
			close(b.stop)
		}
		<-b.done
	}
}
func (s *fakeAvahi) EntryGroupNew() (avahi.EntryGroupInterface, error) {
	s.mu.Lock()
	defer s.mu.Unlock()
	s.calls++
	if !s.up || !s.live {
		return nil, errors.New("not connected")
	}
	return &fakeGroup{srv: s, session: s.session}, nil
}
func (s *fakeAvahi) EntryGroupFree(r avahi.EntryGroupInterface) {
	s.mu.Lock()
	if g, ok := r.(*fakeGroup); ok && s.publishedBy == g {
		s.published = ""
		s.publishedBy = nil
	}
	s.mu.Unlock()
}
func (s *fakeAvahi) ResolveService(iface, protocol int32, name, serviceType, domain string, aprotocol int32, flags uint32) (avahi.Service, error) {
	return avahi.Service{Name: name, Type: serviceType, Domain: domain, Host: "peer.local", Address: "192.168.1.9", Port: 4711,
		Txt: [][]byte{[]byte("txtvers=1"), []byte("id=peer"), []byte("path=/ship/"), []byte("ski=aa"), []byte("register=false")}}, nil
}

// the daemon goes away: its state is lost and the client library reports the disconnect
func (s *fakeAvahi) goDown() {
	s.mu.Lock()
	if !s.up {
		s.mu.Unlock()
		return
	}
	s.up = false
	wasLive := s.live
	s.live = false
	s.dropBrowserLocked()
	s.published = ""
	s.publishedBy = nil
	cb := s.cb
	s.mu.Unlock()
	if wasLive && cb != nil {
		cb(avahi.Disconnected)
	}
}

func (s *fakeAvahi) line(wanted string, loops int) string {
	s.mu.Lock()
	defer s.mu.Unlock()
	pub := "-"
	if s.published != "" {
		pub = strings.TrimPrefix(s.published, "t=")
	}
	return fmt.Sprintf("up=%s browsing=%s published=%s", b01(s.up), b01(s.browser != nil), pub)
}

type avahiScenario struct {
	events []string
	outs   []string
}

func resolveNop(map[string]string, string, string, []net.IP, int, bool) {}

// shutdown with browse results streaming in / one result in flight: Shutdown has to return, nothing may panic
func avahiShutdownTrial(id int, inFlight bool) string {
	srv := &fakeAvahi{up: true, stream: !inFlight, inFlight: inFlight}
	p := mdns.VerifNewAvahiProvider(srv, []int32{avahi.InterfaceUnspec})
	var got atomic.Int32
	cb := func(map[string]string, string, string, []net.IP, int, bool) { got.Add(1) }
	if !p.Start(true, cb) {
		return fmt.Sprintf("BAD trial=%d start failed", id)
	}
	_ = p.Announce("svc", 4711, []string{"t=1"})
	time.Sleep(time.Duration(id%7) * 300 * time.Microsecond)
	done := make(chan string, 1)
	go func() {
		defer func() {
			if x := recover(); x != nil {
				done <- fmt.Sprintf("BAD trial=%d Shutdown panicked: %v", id, x)
			}
		}()
		p.Shutdown()
		done <- ""
	}()
	select {
	case r := <-done:
		if r != "" {
			return r
		}
	case <-time.After(5 * time.Second):
		return fmt.Sprintf("BAD trial=%d Shutdown did not return within 5 s (inFlight=%v, results reported so far %d)", id, inFlight, got.Load())
	}
	return fmt.Sprintf("ok trial=%d inFlight=%v reported=%d", id, inFlight, got.Load())
}

func runAvahiScenario(seed int64, maxEv int) *avahiScenario {
	rnd := rand.New(rand.NewSource(seed))
	srv := &fakeAvahi{up: true}
	p := mdns.VerifNewAvahiProvider(srv, []int32{avahi.InterfaceUnspec})
	var reports atomic.Int32
	resolveCount := func(map[string]string, string, string, []net.IP, int, bool) { reports.Add(1) }
	sc := &avahiScenario{}
	running := false   // provider running (successful start, no shutdown since)
	loopAlive := false // a reconnect loop exists
	wanted := "-"
	nextTxt := 1
	lateBefore := 0
	rec := func(ev string) {
		sc.events = append(sc.events, ev)
		late := 0
		// daemon calls made although the provider was shut down (counted by the caller)
		late = lateBefore
		loops := 0
		if loopAlive {
			loops = 1
		}
		sc.outs = append(sc.outs, fmt.Sprintf("%s wanted=%s loops=%d late=%d rep=%d", srv.line(wanted, loops), wanted, loops, late, reports.Load()))
	}
	shut := false
	ticks := 0
	for n := 0; n < maxEv; n++ {
		switch k := rnd.Intn(23); {
		case k >= 20:
			// the daemon emits a browse result, if it holds a browser for this provider
			srv.mu.Lock()
			browsing, ch := srv.browser != nil, srv.addChan
			srv.mu.Unlock()
			if browsing && ch != nil {
				before := reports.Load()
				func() {
					defer func() { _ = recover() }()
					select {
					case ch <- fakeService(n):
					case <-time.After(2 * time.Second):
					}
				}()
				for i := 0; i < 200 && reports.Load() == before; i++ {
					time.Sleep(5 * time.Millisecond)
				}
			}
			rec("service")
		case k < 3:
			// (not while a reconnect loop of an earlier life is still asleep: two loops would wake at about the same
			// time and the order of their attempts is the scheduler's)
			if !running && !loopAlive {
				ok := p.Start(true, resolveCount)
				shut = false
				if ok {
					running = true
				}
				rec("start")
			}
		case k < 7:
			srv.mu.Lock()
			up, live := srv.up, srv.live
			srv.mu.Unlock()
			if up {
				srv.goDown()
				if live && running && !shut {
					loopAlive = true
				}
				time.Sleep(5 * time.Millisecond)
				rec("down")
			}
		case k < 10:
			srv.mu.Lock()
			srv.up = true
			srv.mu.Unlock()
			rec("up")
		case k < 14:
			if loopAlive && ticks < 3 {
				ticks++
				flaky := rnd.Intn(4) == 0
				srv.mu.Lock()
				if flaky {
					// this attempt gets as far as a successful Setup, then a daemon call fails
					srv.failNext = []string{"api", "browser"}[rnd.Intn(2)]
				}
				before := srv.setups
				callsBefore := srv.calls
				srv.mu.Unlock()
				// one iteration of the reconnect loop: sleeps a second, then tries to start
				deadline := time.Now().Add(1300 * time.Millisecond)
				for time.Now().Before(deadline) {
					srv.mu.Lock()
					done := srv.setups > before
					srv.mu.Unlock()
					if done {
						break
					}
					time.Sleep(10 * time.Millisecond)
				}
				time.Sleep(40 * time.Millisecond) // let a successful attempt finish its re-announce
				srv.mu.Lock()
				attempted := srv.setups > before
				success := srv.live
				calls := srv.calls - callsBefore
				srv.mu.Unlock()
				if shut && attempted {
					lateBefore += 1
					_ = calls
				}
				if !attempted || success {
					loopAlive = false // it gave up (shutdown) or it reconnected
				}
				if attempted && success {
					running = true
					shut = false
				}
				srv.mu.Lock()
				srv.failNext = ""
				srv.mu.Unlock()
				if flaky {
					rec("tickflaky")
				} else {
					rec("tick")
				}
			}
		case k < 17:
			if running && !shut {
				t := nextTxt
				nextTxt++
				_ = p.Announce("svc", 4711, []string{fmt.Sprintf("t=%d", t)})
				wanted = fmt.Sprint(t)
				rec(fmt.Sprintf("announce %d", t))
			}
		case k < 19:
			if running && !shut {
				p.Unannounce()
				wanted = "-"
				rec("unannounce")
			}
		default:
			done := make(chan struct{})
			go func() { p.Shutdown(); close(done) }()
			select {
			case <-done:
			case <-time.After(3 * time.Second):
				sc.events = append(sc.events, "shutdown")
				sc.outs = append(sc.outs, "HANG in Shutdown")
				return sc
			}
			shut = true
			running = false
			wanted = "-"
			rec("shutdown")
		}
	}
	// let a sleeping loop wake up once more so that a late restart would be seen
	if loopAlive {
		srv.mu.Lock()
		before := srv.setups
		srv.mu.Unlock()
		time.Sleep(1250 * time.Millisecond)
		srv.mu.Lock()
		attempted := srv.setups > before
		success := srv.live
		srv.mu.Unlock()
		if shut && attempted {
			lateBefore++
		}
		if !attempted || success {
			loopAlive = false
		}
		if attempted && success {
			shut = false
		}
		rec("tick")
	}
	// the application shuts the provider down at the end: that has to come back too
	done := make(chan struct{})
	go func() { p.Shutdown(); close(done) }()
	select {
	case <-done:
	case <-time.After(3 * time.Second):
		sc.events = append(sc.events, "shutdown")
		sc.outs = append(sc.outs, "HANG in Shutdown")
	}
	return sc
}

func avahistepMain(args []string) int {
	fs := flag.NewFlagSet("avahistep", flag.ExitOnError)
	seed := fs.Int64("seed", 1, "PRNG seed")
	n := fs.Int("n", 60, "scenarios")
	maxEv := fs.Int("events", 12, "events per scenario")
	workers := fs.Int("workers", 60, "parallel scenarios")
	outIn := fs.String("in", "avahi_in.txt", "events")
	outImpl := fs.String("impl", "avahi_impl.txt", "implementation observations")
	outShut := fs.String("shut", "avahi_shutdown.txt", "shutdown-under-load trials")
	nShut := fs.Int("shutdowns", 60, "shutdown trials with results streaming in / in flight")
	_ = fs.Parse(args)
	{
		lines := make([]string, *nShut)
		var wg sync.WaitGroup
		sem := make(chan struct{}, 30)
		for i := 0; i < *nShut; i++ {
			wg.Add(1)
			sem <- struct{}{}
			go func(i int) {
				defer wg.Done()
				defer func() { <-sem }()
				lines[i] = avahiShutdownTrial(i, i%3 == 0)
			}(i)
		}
		wg.Wait()
		f, _ := os.Create(*outShut)
		for _, l := range lines {
			fmt.Fprintln(f, l)
		}
		f.Close()
	}
	res := make([]*avahiScenario, *n)
	var wg sync.WaitGroup
	sem := make(chan struct{}, *workers)
	for i := 0; i < *n; i++ {
		wg.Add(1)
		sem <- struct{}{}
		go func(i int) {
			defer wg.Done()
			defer func() { <-sem }()
			defer func() {
				if x := recover(); x != nil {
					res[i] = &avahiScenario{events: []string{"panic"}, outs: []string{fmt.Sprintf("PANIC %v", x)}}
				}
			}()
			res[i] = runAvahiScenario(*seed*6151+int64(i), *maxEv)
		}(i)
	}
	wg.Wait()
	fi, _ := os.Create(*outIn)
	fo, _ := os.Create(*outImpl)
	bi, bo := bufio.NewWriter(fi), bufio.NewWriter(fo)
	for _, sc := range res {
		fmt.Fprintln(bi, "new")
		fmt.Fprintln(bo, "new")
		for k := range sc.events {
			fmt.Fprintln(bi, sc.events[k])
			fmt.Fprintln(bo, sc.outs[k])
		}
	}
	bi.Flush()
	bo.Flush()
	fi.Close()
	fo.Close()
	return 0
}
