//go:build verif

package main

// Engine notifystress (C18, liveness of the notification queue): the hub delivers pairing-state notifications from one
// delivery goroutine that is started when an update finds none active and ends when it finds the queue empty. An update
// that arrives at the very moment the delivery goroutine ends must still be delivered. The engine issues user operations
// that each change the pairing state of a SKI (register / cancel, no peer, no mDNS entry) back to back while the
// application's callback takes a varying time, so that operations arrive at every phase of the delivery goroutine's
// life; after each operation it waits for the application's last notification to show the state the hub reports.

import (
	"flag"
	"fmt"
	"math/rand"
	"os"
	"sync"
	"sync/atomic"
	"time"

	"github.com/enbility/ship-go/api"
	"github.com/enbility/ship-go/cert"
	"github.com/enbility/ship-go/hub"
)

type notifyReader struct {
	mu    sync.Mutex
	last  map[string]int
	count int64
	spin  int64 // nanoseconds of busy work inside the callback
	in    int32 // callbacks running right now
	over  int64 // times a callback started while another one was running
}

func (r *notifyReader) RemoteSKIConnected(string)    {}
func (r *notifyReader) RemoteSKIDisconnected(string) {}
func (r *notifyReader) SetupRemoteDevice(string, api.ShipConnectionDataWriterInterface) api.ShipConnectionDataReaderInterface {
	return &nullSpine{}
}
func (r *notifyReader) VisibleRemoteServicesUpdated([]api.RemoteService) {}
func (r *notifyReader) ServiceShipIDUpdate(string, string)               {}
func (r *notifyReader) AllowWaitingForTrust(string) bool                 { return false }
func (r *notifyReader) ServicePairingDetailUpdate(ski string, d *api.ConnectionStateDetail) {
	// what the application saw is recorded first: the driver, polling without a pause, issues the next operation while the
	// callback is still busy for a varying time, so that the next update is queued around the moment the callback
	// returns and the delivery goroutine finds its queue empty
	if atomic.AddInt32(&r.in, 1) > 1 {
		atomic.AddInt64(&r.over, 1)
	}
	defer atomic.AddInt32(&r.in, -1)
	r.mu.Lock()
	r.last[ski] = int(d.State())
	r.mu.Unlock()
	atomic.AddInt64(&r.count, 1)
	n := time.Duration(atomic.LoadInt64(&r.spin))
	for t0 := time.Now(); time.Since(t0) < n; {
	}
}

func (r *notifyReader) lastFor(ski string) (int, bool) {
	r.mu.Lock()
	defer r.mu.Unlock()
	v, ok := r.last[ski]
	return v, ok
}

func notifystressMain(args []string) int {
	fs := flag.NewFlagSet("notifystress", flag.ExitOnError)
	seed := fs.Int64("seed", 1, "PRNG seed")
	n := fs.Int("n", 30000, "operations")
	out := fs.String("out", "notifystress_out.txt", "result")
	_ = fs.Parse(args)
	rnd := rand.New(rand.NewSource(*seed))
	f, _ := os.Create(*out)
	defer f.Close()
	certificate, _ := cert.CreateCertificate("unit", "verif", "DE", fmt.Sprintf("notify-%d", *seed))
	rd := &notifyReader{last: map[string]int{}}
	log := &obsLog{}
	h := hub.NewHub(rd, &inertMdns{log}, 4700+int(*seed%200), certificate, api.NewServiceDetails("0011223344"))
	h.Start()
	defer h.Shutdown()
	skis := []string{"aaaaaaaaaaaaaaaaaaaaaaaaaaaaaaaaaaaaaa01", "aaaaaaaaaaaaaaaaaaaaaaaaaaaaaaaaaaaaaa02"}
	bad, slowest := 0, time.Duration(0)
	toggle := func(ski string) string {
		if d := h.PairingDetailForSki(ski); d.State() != api.ConnectionStateNone {
			h.CancelPairingWithSKI(ski)
			return "cancel"
		}
		h.RegisterRemoteSKI(ski)
		return "register"
	}
	converged := func(i int, op, ski string) {
		want := int(h.PairingDetailForSki(ski).State())
		t0 := time.Now()
		ok := false
		for time.Since(t0) < 5*time.Second {
			if v, seen := rd.lastFor(ski); seen && v == want {
				ok = true
				break
			}
			if time.Since(t0) > 5*time.Millisecond {
				time.Sleep(200 * time.Microsecond)
			}
		}
		if el := time.Since(t0); el > slowest {
			slowest = el
		}
		if !ok {
			v, seen := rd.lastFor(ski)
			bad++
			fmt.Fprintf(f, "BAD op %d (%s %s): the hub reports pairing state %d, 5 s later the application's last notification for the SKI still shows %d (any: %v); %d notifications delivered so far - an update queued while the delivery goroutine was ending is not delivered until some later update\n",
				i, op, ski[len(ski)-2:], want, v, seen, atomic.LoadInt64(&rd.count))
		}
	}
	for i := 0; i < *n && bad < 3; i++ {
		sp := rnd.Intn(3000)
		if rnd.Intn(8) == 0 {
			sp = rnd.Intn(60000) // long enough for a second delivery goroutine, if one can be started, to get going
		}
		atomic.StoreInt64(&rd.spin, int64(sp))
		ski := skis[0]
		if rnd.Intn(8) == 0 {
			ski = skis[1]
		}
		op := toggle(ski)
		converged(i, op, ski)
	}
	if o := atomic.LoadInt64(&rd.over); o > 0 {
		fmt.Fprintf(f, "BAD %d times the application was called with a pairing update while the call for an earlier update was still running: two delivery goroutines are alive, the order in which updates reach the application is the scheduler's\n", o)
	}
	fmt.Fprintf(f, "SUMMARY ops=%d notifications=%d bad=%d slowest_us=%d\n", *n, atomic.LoadInt64(&rd.count), bad, slowest.Microseconds())
	return 0
}
