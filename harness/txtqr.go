//go:build verif

package main

// Engine txtqr (C16): a real MdnsManager announces through a fake provider; the captured TXT record is
// fed through the library's own parser and entry processing of a second manager; the QR text is taken
// from QRCodeText. Everything is printed as hex next to the configuration for the Lean driver.

import (
	"bufio"
	"encoding/hex"
	"flag"
	"fmt"
	"math/rand"
	"net"
	"os"
	"strings"
	"sync"

	"github.com/enbility/ship-go/api"
	"github.com/enbility/ship-go/mdns"
)

type fakeProvider struct {
	mu       sync.Mutex
	txt      []string
	name     string
	port     int
	announce int
}

func (p *fakeProvider) Start(bool, api.MdnsResolveCB) bool { return true }
func (p *fakeProvider) Shutdown()                          {}
func (p *fakeProvider) Unannounce()                        {}
func (p *fakeProvider) Announce(name string, port int, txt []string) error {
	p.mu.Lock()
	defer p.mu.Unlock()
	p.txt, p.name, p.port = append([]string{}, txt...), name, port
	p.announce++
	return nil
}

type nullReport struct{}

func (nullReport) ReportMdnsEntries(map[string]*api.MdnsEntry, bool) {}

func hx(s string) string {
	if s == "" {
		return "-"
	}
	return hex.EncodeToString([]byte(s))
}

var txtRunes = []string{"a", "B", "7", " ", "=", ";", ":", ",", "ä", "é", "€", "日", "😀", "-", "_", "/", "\"", "\x00"}

func randField(rnd *rand.Rand) string {
	switch rnd.Intn(10) {
	case 0:
		return ""
	case 1: // invalid UTF-8
		b := make([]byte, rnd.Intn(40))
		rnd.Read(b)
		return string(b)
	case 2, 3, 4: // multi-byte runes around the 32-byte boundary
		var sb strings.Builder
		n := 28 + rnd.Intn(4)
		for sb.Len() < n {
			sb.WriteString("x")
		}
		for sb.Len() < 31+rnd.Intn(8) {
			sb.WriteString(txtRunes[8+rnd.Intn(5)])
		}
		return sb.String()
	default:
		var sb strings.Builder
		n := rnd.Intn(45)
		for sb.Len() < n {
			sb.WriteString(txtRunes[rnd.Intn(len(txtRunes)-1)])
		}
		return sb.String()
	}
}

func entryLine(e *api.MdnsEntry) string {
	if e == nil {
		return "none"
	}
	cats := []string{}
	for _, c := range e.Categories {
		cats = append(cats, hx(fmt.Sprint(uint(c))))
	}
	return strings.Join([]string{hx(e.Ski), hx(e.Identifier), hx(e.Path), b01(e.Register), hx(e.Brand), hx(e.Type), hx(e.Model), hx(e.Serial), strings.Join(cats, ",")}, "|")
}

func txtqrMain(args []string) int {
	fs := flag.NewFlagSet("txtqr", flag.ExitOnError)
	seed := fs.Int64("seed", 1, "PRNG seed")
	n := fs.Int("n", 20000, "number of configurations")
	outIn := fs.String("in", "txt_in.txt", "configurations (model input)")
	outImpl := fs.String("impl", "txt_impl.txt", "implementation results")
	_ = fs.Parse(args)
	rnd := rand.New(rand.NewSource(*seed))
	fi, _ := os.Create(*outIn)
	fo, _ := os.Create(*outImpl)
	bi, bo := bufio.NewWriter(fi), bufio.NewWriter(fo)
	localSki := "0123456789abcdef0123456789abcdef01234567"
	corpus := [][6]string{
		{"aa", "id", "0123456789012345678901234567890ä", "mo=del", "type", "serial"}, // fixed: rune split, '=' in value
		{"ab", "id;BRAND:evil", "", "", "", ""},                                      // fixed: ';' in id
		{"ab;cd", "x=y", "b;r", "m:o", "t", ""},
	}
	for i := 0; i < *n+len(corpus); i++ {
		var ski, id, brand, model, typ, serial string
		if i < len(corpus) {
			c := corpus[i]
			ski, id, brand, model, typ, serial = c[0], c[1], c[2], c[3], c[4], c[5]
		} else {
			ski = []string{"aabbcc", "AB-CD 12", "ski;1", "s=k", ""}[rnd.Intn(5)]
			if rnd.Intn(3) == 0 {
				ski = randField(rnd)
			}
			id = []string{"Brand-Model-123", "id", "", "a=b", "x;y"}[rnd.Intn(5)]
			if rnd.Intn(3) == 0 {
				id = randField(rnd)
			}
			brand, model, typ, serial = randField(rnd), randField(rnd), randField(rnd), randField(rnd)
		}
		var cats []api.DeviceCategoryType
		catStr := []string{}
		if rnd.Intn(4) != 0 {
			for k := rnd.Intn(4); k >= 0; k-- {
				c := uint(rnd.Intn(12))
				if rnd.Intn(10) == 0 {
					c = uint(rnd.Intn(1 << 30))
				}
				cats = append(cats, api.DeviceCategoryType(c))
				catStr = append(catStr, fmt.Sprint(c))
			}
		}
		auto := rnd.Intn(2) == 0
		port := 1 + rnd.Intn(65535)

		prov := &fakeProvider{}
		a := mdns.NewMDNS(ski, brand, model, typ, serial, cats, id, "svc", port, nil, mdns.MdnsProviderSelectionGoZeroConfOnly)
		a.VerifSetProvider(prov, nullReport{})
		a.SetAutoAccept(auto)
		_ = a.AnnounceMdnsEntry()
		qr := a.QRCodeText()

		b := mdns.NewMDNS(localSki, "", "", "", "", nil, "local", "svc2", 1, nil, mdns.MdnsProviderSelectionGoZeroConfOnly)
		b.VerifSetProvider(&fakeProvider{}, nullReport{})
		elements := mdns.VerifParseTxt(prov.txt)
		b.VerifResolve(elements, "svc", "host.local", []net.IP{net.ParseIP("192.168.1.7")}, prov.port, false)
		var entry *api.MdnsEntry
		for _, e := range b.VerifRawEntries() {
			entry = e
		}
		cs := "-"
		if len(catStr) > 0 {
			cs = strings.Join(catStr, ",")
		}
		fmt.Fprintf(bi, "cfg ski=%s id=%s brand=%s model=%s type=%s serial=%s cats=%s auto=%s local=%s\n",
			hx(ski), hx(id), hx(brand), hx(model), hx(typ), hx(serial), cs, b01(auto), hx(localSki))
		fmt.Fprintf(bi, "qrparse %s\n", hx(qr))
		items := []string{}
		for _, t := range prov.txt {
			items = append(items, hx(t))
		}
		portOK := entry == nil || entry.Port == port
		fmt.Fprintf(bo, "txt=%s entry=%s qr=%s port=%s\n", strings.Join(items, ","), entryLine(entry), hx(qr), b01(portOK))
		fmt.Fprintln(bo, "-")
	}
	bi.Flush()
	bo.Flush()
	fi.Close()
	fo.Close()
	return 0
}
